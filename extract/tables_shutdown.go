package main

// Gen/Shutdown.lean: the signal-handling goroutine of pkg/server/server.go:Start translated, statement by statement and in source order, into a
// list of timed operations (C19). The Lean side interprets this list (`Ww.Model.ShutdownSrc`) and proves that the instants it yields - listeners
// closed at wait-before, forced exit at graceful - are the parameters of the timed protocol model. Moving the Sleep, starting the deadline clock
// earlier, handing Shutdown another context or dropping the fatal exit therefore changes a proof obligation, not only a string.

import (
	"fmt"
	"go/ast"
	"go/token"
	"strconv"
	"strings"
)

func init() { tableGens = append(tableGens, genShutdown) }

func sdExpr(fset *token.FileSet, e ast.Expr) string {
	switch x := e.(type) {
	case *ast.ParenExpr:
		return sdExpr(fset, x.X)
	case *ast.BinaryExpr:
		if x.Op == token.SUB {
			return "(.sub " + sdExpr(fset, x.X) + " " + sdExpr(fset, x.Y) + ")"
		}
		if x.Op == token.ADD {
			return "(.add " + sdExpr(fset, x.X) + " " + sdExpr(fset, x.Y) + ")"
		}
	case *ast.SelectorExpr:
		switch src(fset, x) {
		case "cfg.ShutdownWaitBeforePeriod":
			return ".waitBefore"
		case "cfg.ShutdownGracefulPeriod":
			return ".graceful"
		}
	case *ast.Ident:
		return "(.var " + strconv.Quote(x.Name) + ")"
	}
	return "(.other " + strconv.Quote(src(fset, e)) + ")"
}

func isCallTo(fset *token.FileSet, e ast.Expr, name string) (*ast.CallExpr, bool) {
	c, ok := e.(*ast.CallExpr)
	if !ok {
		return nil, false
	}
	return c, src(fset, c.Fun) == name
}

// bodyMentions reports whether any node below n renders as one of the given source texts
func bodyMentions(fset *token.FileSet, n ast.Node, texts ...string) bool {
	found := false
	ast.Inspect(n, func(m ast.Node) bool {
		if m == nil || found {
			return false
		}
		switch m.(type) {
		case *ast.SelectorExpr, *ast.Ident, *ast.CallExpr:
			s := src(fset, m)
			for _, t := range texts {
				if s == t || strings.HasPrefix(s, t+"(") {
					found = true
				}
			}
		}
		return true
	})
	return found
}

func sdStmt(fset *token.FileSet, st ast.Stmt) []string {
	switch s := st.(type) {
	case *ast.AssignStmt:
		if len(s.Rhs) == 1 {
			rhs := s.Rhs[0]
			if u, ok := rhs.(*ast.UnaryExpr); ok && u.Op == token.ARROW {
				return []string{".recv " + strconv.Quote(src(fset, u.X))}
			}
			if c, ok := isCallTo(fset, rhs, "context.WithTimeout"); ok && len(c.Args) == 2 && len(s.Lhs) >= 1 {
				return []string{fmt.Sprintf(".withTimeout %s %s %s", strconv.Quote(src(fset, s.Lhs[0])), strconv.Quote(src(fset, c.Args[0])), sdExpr(fset, c.Args[1]))}
			}
			if c, ok := isCallTo(fset, rhs, "context.WithDeadline"); ok && len(s.Lhs) >= 1 {
				return []string{fmt.Sprintf(".call %s", strconv.Quote("context.WithDeadline:"+src(fset, c)))}
			}
			if c, ok := isCallTo(fset, rhs, "server.Shutdown"); ok && len(c.Args) == 1 {
				return []string{".shutdown " + strconv.Quote(src(fset, c.Args[0]))}
			}
			if _, ok := isCallTo(fset, rhs, "server.Close"); ok {
				return []string{".close"}
			}
			if c, ok := rhs.(*ast.CallExpr); ok {
				return []string{".call " + strconv.Quote(src(fset, c.Fun))}
			}
			if len(s.Lhs) == 1 {
				if id, ok := s.Lhs[0].(*ast.Ident); ok {
					return []string{fmt.Sprintf(".letVar %s %s", strconv.Quote(id.Name), sdExpr(fset, rhs))}
				}
			}
		}
		return []string{".call " + strconv.Quote("assign:"+src(fset, s))}
	case *ast.ExprStmt:
		if u, ok := s.X.(*ast.UnaryExpr); ok && u.Op == token.ARROW {
			return []string{".recv " + strconv.Quote(src(fset, u.X))}
		}
		if c, ok := isCallTo(fset, s.X, "time.Sleep"); ok && len(c.Args) == 1 {
			return []string{".sleep " + sdExpr(fset, c.Args[0])}
		}
		if c, ok := isCallTo(fset, s.X, "server.Shutdown"); ok && len(c.Args) == 1 {
			return []string{".shutdown " + strconv.Quote(src(fset, c.Args[0]))}
		}
		if _, ok := isCallTo(fset, s.X, "server.Close"); ok {
			return []string{".close"}
		}
		if c, ok := s.X.(*ast.CallExpr); ok {
			f := src(fset, c.Fun)
			if strings.HasPrefix(f, "log.Info") || strings.HasPrefix(f, "log.Debug") || strings.HasPrefix(f, "log.Warn") {
				return nil // logging has no timing effect
			}
			if strings.HasPrefix(f, "log.Fatal") || f == "os.Exit" {
				return []string{".fatal"}
			}
			return []string{".call " + strconv.Quote(f)}
		}
	case *ast.GoStmt:
		// the deadline watcher: go func() { <-ctx.Done(); if errors.Is(ctx.Err(), context.DeadlineExceeded) { log.Fatalf(..) } }()
		if fl, ok := s.Call.Fun.(*ast.FuncLit); ok {
			ctx := ""
			fatalGuarded := false
			for _, bs := range fl.Body.List {
				if es, ok := bs.(*ast.ExprStmt); ok {
					if u, ok := es.X.(*ast.UnaryExpr); ok && u.Op == token.ARROW {
						if c, ok := u.X.(*ast.CallExpr); ok {
							if sel, ok := c.Fun.(*ast.SelectorExpr); ok && sel.Sel.Name == "Done" {
								ctx = src(fset, sel.X)
							}
						}
					}
				}
				if is, ok := bs.(*ast.IfStmt); ok && ctx != "" {
					if bodyMentions(fset, is.Cond, "context.DeadlineExceeded") && bodyMentions(fset, is.Cond, ctx+".Err") &&
						(bodyMentions(fset, is.Body, "log.Fatalf") || bodyMentions(fset, is.Body, "log.Fatal") || bodyMentions(fset, is.Body, "os.Exit")) {
						fatalGuarded = true
					}
				}
			}
			if ctx != "" && fatalGuarded {
				return []string{".deadlineFatal " + strconv.Quote(ctx)}
			}
			return []string{".call " + strconv.Quote("go:"+strings.Join(callsIn(fset, fl.Body), ","))}
		}
		return []string{".call " + strconv.Quote("go:"+src(fset, s.Call.Fun))}
	case *ast.IfStmt:
		// if err != nil { log.Fatal(err) }
		if bodyMentions(fset, s.Body, "log.Fatal") || bodyMentions(fset, s.Body, "log.Fatalf") || bodyMentions(fset, s.Body, "os.Exit") {
			return []string{".fatalOnErr"}
		}
		var out []string
		for _, bs := range s.Body.List {
			out = append(out, sdStmt(fset, bs)...)
		}
		return append([]string{".call " + strconv.Quote("if:"+src(fset, s.Cond))}, out...)
	case *ast.DeferStmt:
		return []string{".call " + strconv.Quote("defer:"+src(fset, s.Call.Fun))}
	}
	return []string{".call " + strconv.Quote("stmt:"+strings.SplitN(src(fset, st), "\n", 2)[0])}
}

func genShutdown() {
	fset := token.NewFileSet()
	var b strings.Builder
	b.WriteString(header)
	b.WriteString("-- The signal goroutine of pkg/server/server.go:Start as a list of timed operations, in source order.\n")
	b.WriteString("namespace Ww.Gen.Shutdown\n\n")
	b.WriteString("inductive SdExpr where\n  | waitBefore | graceful\n  | sub (a b : SdExpr) | add (a b : SdExpr)\n  | var (n : String) | other (s : String)\n  deriving Repr, DecidableEq\n\n")
	b.WriteString("inductive SdOp where\n  | recv (ch : String)\n  | sleep (e : SdExpr)\n  | letVar (n : String) (e : SdExpr)\n  | withTimeout (ctx parent : String) (e : SdExpr)\n  | deadlineFatal (ctx : String)\n" +
		"  | shutdown (ctx : String)\n  | close\n  | fatal\n  | fatalOnErr\n  | call (f : String)\n  deriving Repr, DecidableEq\n\n")
	var ops []string
	var sigs []string
	found := false
	if sf := parseFile(fset, "pkg/server/server.go"); sf != nil {
		for _, d := range sf.Decls {
			fd, ok := d.(*ast.FuncDecl)
			if !ok || fd.Name.Name != "Start" || fd.Body == nil {
				continue
			}
			// signals registered
			ast.Inspect(fd.Body, func(n ast.Node) bool {
				if c, ok := n.(*ast.CallExpr); ok && src(fset, c.Fun) == "signal.Notify" {
					for _, a := range c.Args[1:] {
						sigs = append(sigs, src(fset, a))
					}
				}
				return true
			})
			// the goroutine that receives from the signal channel
			for _, st := range fd.Body.List {
				gs, ok := st.(*ast.GoStmt)
				if !ok {
					continue
				}
				fl, ok := gs.Call.Fun.(*ast.FuncLit)
				if !ok {
					continue
				}
				hasRecv := false
				for _, bs := range fl.Body.List {
					for _, o := range sdStmt(fset, bs) {
						if strings.HasPrefix(o, ".recv") {
							hasRecv = true
						}
					}
				}
				if !hasRecv {
					continue
				}
				found = true
				for _, bs := range fl.Body.List {
					ops = append(ops, sdStmt(fset, bs)...)
				}
			}
		}
	}
	if !found {
		probs.add("Shutdown", "no goroutine receiving from the signal channel found in pkg/server/server.go:Start")
	}
	fmt.Fprintf(&b, "def signals : List String := %s\n\n", qs(sigs))
	b.WriteString("def shutdownOps : List SdOp := [\n")
	for i, o := range ops {
		sep := ","
		if i == len(ops)-1 {
			sep = ""
		}
		fmt.Fprintf(&b, "  %s%s\n", o, sep)
	}
	b.WriteString("]\n\nend Ww.Gen.Shutdown\n")
	writeGen("Shutdown.lean", b.String())
}
