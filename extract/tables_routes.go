package main

// Gen/Routes.lean: the route table of pkg/router/router.go:New as data.

import (
	"bytes"
	"fmt"
	"go/ast"
	"go/printer"
	"go/token"
	"strconv"
	"strings"
)

func init() { tableGens = append(tableGens, genRoutes) }

type routeEntry struct {
	mount   []string
	method  string
	pattern string
	handler string
	mws     []string
	conds   []string
}

type routeScope struct {
	mount []string
	mws   []string
	conds []string
}

func (s routeScope) clone() routeScope {
	return routeScope{append([]string{}, s.mount...), append([]string{}, s.mws...), append([]string{}, s.conds...)}
}

func src(fset *token.FileSet, n ast.Node) string {
	var b bytes.Buffer
	printer.Fprint(&b, fset, n)
	return strings.Join(strings.Fields(b.String()), " ")
}

// condMw guards a middleware entry "cond\x00name" with an additional condition
func condMw(c, m string) string {
	i := strings.Index(m, "\x00")
	if m[:i] == "" {
		return c + m[i:]
	}
	return m[:i] + " && " + c + m[i:]
}

func genRoutes() {
	fset := token.NewFileSet()
	f := parseFile(fset, "pkg/router/router.go")
	pf := parseFile(fset, "pkg/router/paths/paths.go")
	if f == nil || pf == nil {
		return
	}
	consts := map[string]string{}
	for _, d := range pf.Decls {
		if gd, ok := d.(*ast.GenDecl); ok && gd.Tok == token.CONST {
			for _, s := range gd.Specs {
				vs := s.(*ast.ValueSpec)
				for i, id := range vs.Names {
					if i < len(vs.Values) {
						if bl, ok := vs.Values[i].(*ast.BasicLit); ok && bl.Kind == token.STRING {
							v, _ := strconv.Unquote(bl.Value)
							consts[id.Name] = v
						}
					}
				}
			}
		}
	}
	var evalPat func(e ast.Expr) (string, bool)
	evalPat = func(e ast.Expr) (string, bool) {
		switch x := e.(type) {
		case *ast.BasicLit:
			if x.Kind == token.STRING {
				v, err := strconv.Unquote(x.Value)
				return v, err == nil
			}
		case *ast.Ident:
			if x.Name == "prefix" {
				return "<prefix>", true
			}
		case *ast.SelectorExpr:
			if p, ok := x.X.(*ast.Ident); ok && p.Name == "paths" {
				v, ok := consts[x.Sel.Name]
				return v, ok
			}
		case *ast.BinaryExpr:
			if x.Op == token.ADD {
				a, ok1 := evalPat(x.X)
				b, ok2 := evalPat(x.Y)
				return a + b, ok1 && ok2
			}
		}
		return "", false
	}
	var newFn *ast.FuncDecl
	for _, d := range f.Decls {
		if fd, ok := d.(*ast.FuncDecl); ok && fd.Name.Name == "New" && fd.Recv == nil {
			newFn = fd
		}
	}
	if newFn == nil {
		probs.add("Routes", "func New not found in pkg/router/router.go")
		return
	}
	var entries, mounts []routeEntry
	methods := map[string]string{"Get": "GET", "Head": "HEAD", "Post": "POST", "Options": "OPTIONS", "Put": "PUT", "Delete": "DELETE", "Patch": "PATCH", "Connect": "CONNECT", "Trace": "TRACE",
		"HandleFunc": "ANY", "Handle": "ANY"}
	var walk func(stmts []ast.Stmt, sc *routeScope)
	funcBody := func(e ast.Expr) []ast.Stmt {
		if fl, ok := e.(*ast.FuncLit); ok {
			return fl.Body.List
		}
		return nil
	}
	walk = func(stmts []ast.Stmt, sc *routeScope) {
		for _, st := range stmts {
			switch x := st.(type) {
			case *ast.ExprStmt:
				call, ok := x.X.(*ast.CallExpr)
				if !ok {
					continue
				}
				sel, ok := call.Fun.(*ast.SelectorExpr)
				if !ok {
					continue
				}
				recv, ok := sel.X.(*ast.Ident)
				if !ok || recv.Name != "r" {
					continue
				}
				switch name := sel.Sel.Name; {
				case name == "Use":
					for _, a := range call.Args {
						n := src(fset, a)
						if i := strings.Index(n, "("); i > 0 && !strings.HasPrefix(n, "cors(") {
							n = n[:i]
						}
						sc.mws = append(sc.mws, "\x00"+n)
					}
				case name == "Group" && len(call.Args) == 1:
					inner := sc.clone()
					walk(funcBody(call.Args[0]), &inner)
				case name == "Route" && len(call.Args) == 2:
					p, ok := evalPat(call.Args[0])
					if !ok {
						probs.add("Routes", "unsupported mount pattern "+src(fset, call.Args[0]))
						continue
					}
					inner := sc.clone()
					inner.mount = append(inner.mount, p)
					mounts = append(mounts, routeEntry{mount: inner.mount, mws: append([]string{}, sc.mws...), conds: append([]string{}, sc.conds...)})
					mountIdx := len(mounts) - 1
					walk(funcBody(call.Args[1]), &inner)
					mounts[mountIdx].mws = inner.mws // middlewares Use()d inside the sub-router also wrap its 404/405
				case name == "With" || name == "Mount" || name == "Method" || name == "MethodFunc" || name == "NotFound" || name == "MethodNotAllowed":
					probs.add("Routes", "unsupported router call r."+name)
				default:
					if m, ok := methods[name]; ok && len(call.Args) == 2 {
						p, ok := evalPat(call.Args[0])
						if !ok {
							probs.add("Routes", "unsupported route pattern "+src(fset, call.Args[0]))
							continue
						}
						h := src(fset, call.Args[1])
						if _, isLit := call.Args[1].(*ast.FuncLit); isLit {
							h = "inline:" + p
						}
						e := sc.clone()
						entries = append(entries, routeEntry{e.mount, m, p, h, e.mws, e.conds})
					}
				}
			case *ast.IfStmt:
				c := src(fset, x.Cond)
				a := sc.clone()
				a.conds = append(a.conds, c)
				walk(x.Body.List, &a)
				// middlewares registered inside a branch apply to the rest of the enclosing scope only under that condition
				base := len(sc.mws)
				var bNew []string
				if eb, ok := x.Else.(*ast.BlockStmt); ok {
					b := sc.clone()
					b.conds = append(b.conds, "!("+c+")")
					walk(eb.List, &b)
					bNew = b.mws[base:]
				} else if x.Else != nil {
					probs.add("Routes", "else-if in router.New")
				}
				for _, m := range a.mws[base:] {
					sc.mws = append(sc.mws, condMw(c, m))
				}
				for _, m := range bNew {
					sc.mws = append(sc.mws, condMw("!("+c+")", m))
				}
			case *ast.RangeStmt:
				walk(x.Body.List, sc)
			case *ast.BlockStmt:
				walk(x.List, sc)
			}
		}
	}
	root := routeScope{}
	walk(newFn.Body.List, &root)
	qm := func(ss []string) string {
		var o []string
		for _, s := range ss {
			i := strings.Index(s, "\x00")
			o = append(o, "("+strconv.Quote(s[:i])+", "+strconv.Quote(s[i+1:])+")")
		}
		return "[" + strings.Join(o, ", ") + "]"
	}
	q := func(ss []string) string {
		var o []string
		for _, s := range ss {
			o = append(o, strconv.Quote(s))
		}
		return "[" + strings.Join(o, ", ") + "]"
	}
	var b strings.Builder
	b.WriteString(header)
	b.WriteString("-- Route table of pkg/router/router.go:New (mount path, method, pattern, handler, middleware stack in order, guards).\n")
	b.WriteString("namespace Ww.Gen.Routes\n\nstructure Entry where\n  mount : List String\n  method : String\n  pattern : String\n  handler : String\n  mws : List (String × String)   -- (guard or empty, middleware)\n  conds : List String\n  deriving Repr, DecidableEq\n\n")
	b.WriteString("def table : List Entry := [\n")
	for i, e := range entries {
		sep := ","
		if i == len(entries)-1 {
			sep = ""
		}
		fmt.Fprintf(&b, "  ⟨%s, %s, %s, %s, %s, %s⟩%s\n", q(e.mount), strconv.Quote(e.method), strconv.Quote(e.pattern), strconv.Quote(e.handler), qm(e.mws), q(e.conds), sep)
	}
	b.WriteString("]\n\n-- sub-routers: mount path, middleware stack that also wraps the sub-router's own 404/405 answers\ndef mounts : List Entry := [\n")
	for i, e := range mounts {
		sep := ","
		if i == len(mounts)-1 {
			sep = ""
		}
		fmt.Fprintf(&b, "  ⟨%s, \"\", \"\", \"\", %s, %s⟩%s\n", q(e.mount), qm(e.mws), q(e.conds), sep)
	}
	b.WriteString("]\n\nend Ww.Gen.Routes\n")
	writeGen("Routes.lean", b.String())
	factMap["routes"] = len(entries)
}
