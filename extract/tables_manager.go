package main

// Gen/Manager.lean: the session manager's control flow (pkg/session/session_manager.go, session_reader.go, store_redis.go, store_memory.go)
// translated, statement by statement and in source order, into flat lists of skeleton statements (C05 C07 C08 C10 C11, tie G).
// Only the SHAPE is kept: which function is called with which argument texts, what is assigned, which guard returns what, what is deferred,
// how a retry closure classifies errors. Logging / tracing statements are dropped by an explicit rule. The Lean side (`Ww.Model.ManagerSrc`)
// runs these lists symbolically and proves that the order lock → re-read → re-check → grant(with the RE-READ token) → write-back → release,
// the lock around session creation, the single-command store update and the error classes are what the interleaving / fault models assume.

import (
	"fmt"
	"go/ast"
	"go/token"
	"strconv"
	"strings"
)

func init() { tableGens = append(tableGens, genManager) }

func oneLine(s string) string { return strings.Join(strings.Fields(s), " ") }

func mgDropCall(f string) bool {
	return strings.HasPrefix(f, "span.") || strings.HasPrefix(f, "logger.") || strings.HasPrefix(f, "mw.LogEntryFrom(") || f == "mw.LogEntryFrom" || strings.HasPrefix(f, "otel.StartSpan") ||
		strings.HasPrefix(f, "otel.AddErrorEvent") || f == "metrics.ObserveLogout" || f == "metrics.ObserveLogin" || f == "trace.SpanFromContext" && false
}

// %w operands of a fmt.Errorf call
func wrapOperands(fset *token.FileSet, c *ast.CallExpr) []string {
	if len(c.Args) == 0 {
		return nil
	}
	bl, ok := c.Args[0].(*ast.BasicLit)
	if !ok || bl.Kind != token.STRING {
		return nil
	}
	f, err := strconv.Unquote(bl.Value)
	if err != nil {
		return nil
	}
	var out []string
	arg := 1
	for i := 0; i < len(f); i++ {
		if f[i] != '%' {
			continue
		}
		i++
		if i < len(f) && f[i] == '%' {
			continue
		}
		for i < len(f) && strings.ContainsRune("+-# 0123456789.", rune(f[i])) {
			i++
		}
		if i < len(f) {
			if f[i] == 'w' && arg < len(c.Args) {
				out = append(out, oneLine(src(fset, c.Args[arg])))
			}
			arg++
		}
	}
	return out
}

func mgVal(fset *token.FileSet, e ast.Expr) string {
	if id, ok := e.(*ast.Ident); ok && id.Name == "nil" {
		return ".nil"
	}
	if c, ok := e.(*ast.CallExpr); ok {
		fn := src(fset, c.Fun)
		if fn == "fmt.Errorf" {
			return "(.wrap " + qs(wrapOperands(fset, c)) + ")"
		}
		if fn == "retry.RetryableError" {
			return "(.retryable)"
		}
	}
	return "(.expr " + strconv.Quote(oneLine(src(fset, e))) + ")"
}

func mgVals(fset *token.FileSet, es []ast.Expr) string {
	var v []string
	for _, e := range es {
		v = append(v, mgVal(fset, e))
	}
	return "[" + strings.Join(v, ", ") + "]"
}

func exprTexts(fset *token.FileSet, es []ast.Expr) []string {
	var out []string
	for _, e := range es {
		out = append(out, oneLine(src(fset, e)))
	}
	return out
}

// calls (full source text, one line) made inside function literals among the arguments
func innerCalls(fset *token.FileSet, c *ast.CallExpr) []string {
	var out []string
	for _, a := range c.Args {
		fl, ok := a.(*ast.FuncLit)
		if !ok {
			continue
		}
		ast.Inspect(fl.Body, func(n ast.Node) bool {
			if ic, ok := n.(*ast.CallExpr); ok {
				if sel, ok := ic.Fun.(*ast.SelectorExpr); ok {
					if _, onCall := sel.X.(*ast.CallExpr); onCall {
						return true // a method on a call's result (.Err(), .Scan(..)): the command is the inner call
					}
				}
				t := oneLine(src(fset, ic))
				if !mgDropCall(t) {
					out = append(out, t)
				}
			}
			return true
		})
	}
	return out
}

// retry.Do / retry.DoValue(ctx, func(ctx) … { x, err := CALL(...); classification… })
func mgRetry(fset *token.FileSet, lhs []string, c *ast.CallExpr) (string, bool) {
	fn := src(fset, c.Fun)
	if fn != "retry.Do" && fn != "retry.DoValue" || len(c.Args) != 2 {
		return "", false
	}
	fl, ok := c.Args[1].(*ast.FuncLit)
	if !ok {
		return "", false
	}
	var inner, firstCall *ast.CallExpr
	var pre []string
	defaultRetry := false
	var retryOn, stopOn []string
	var walk func(stmts []ast.Stmt, underIs string)
	retIsRetryable := func(r *ast.ReturnStmt) bool {
		for _, e := range r.Results {
			if ic, ok := e.(*ast.CallExpr); ok && src(fset, ic.Fun) == "retry.RetryableError" {
				return true
			}
		}
		return false
	}
	walk = func(stmts []ast.Stmt, underIs string) {
		for _, st := range stmts {
			switch s := st.(type) {
			case *ast.AssignStmt:
				if len(s.Rhs) == 1 {
					if ic, ok := s.Rhs[0].(*ast.CallExpr); ok {
						fn := src(fset, ic.Fun)
						effectful := strings.HasPrefix(fn, "in.store.") || strings.HasPrefix(fn, "in.client.") || strings.HasPrefix(fn, "s.client.")
						if inner == nil && effectful {
							inner = ic
							continue
						}
						if inner == nil && firstCall == nil {
							firstCall = ic
						}
					}
					if len(s.Lhs) == 1 { // a value computed inside the closure before the call (e.g. the remaining lifetime): kept as an assignment in front of the retry
						pre = append(pre, fmt.Sprintf(".assign %s %s", strconv.Quote(oneLine(src(fset, s.Lhs[0]))), strconv.Quote(oneLine(src(fset, s.Rhs[0])))))
					}
				}
			case *ast.IfStmt:
				cond := oneLine(src(fset, s.Cond))
				if strings.HasPrefix(cond, "errors.Is(err, ") {
					sent := strings.TrimSuffix(strings.TrimPrefix(cond, "errors.Is(err, "), ")")
					walk(s.Body.List, sent)
				} else {
					walk(s.Body.List, underIs+"|"+cond)
				}
			case *ast.ReturnStmt:
				rt := retIsRetryable(s)
				if underIs != "" && !strings.HasPrefix(underIs, "|") {
					if rt {
						retryOn = append(retryOn, underIs)
					} else {
						stopOn = append(stopOn, underIs)
					}
				} else if rt {
					defaultRetry = true
				}
			}
		}
	}
	walk(fl.Body.List, "")
	if inner == nil {
		inner, pre = firstCall, nil
	}
	if inner == nil {
		return "", false
	}
	return strings.Join(append(pre, fmt.Sprintf(".retry %s %s %s %v %s %s", qs(lhs), strconv.Quote(oneLine(src(fset, inner.Fun))), qs(exprTexts(fset, inner.Args)), defaultRetry, qs(retryOn), qs(stopOn))), "\x00"), true
}

func mgStmts(fset *token.FileSet, stmts []ast.Stmt) []string {
	var out []string
	for _, st := range stmts {
		out = append(out, mgStmt(fset, st)...)
	}
	return out
}

func mgStmt(fset *token.FileSet, st ast.Stmt) []string {
	switch s := st.(type) {
	case *ast.AssignStmt:
		lhs := exprTexts(fset, s.Lhs)
		if len(s.Rhs) == 1 {
			if c, ok := s.Rhs[0].(*ast.CallExpr); ok {
				fn := oneLine(src(fset, c.Fun))
				if mgDropCall(fn) {
					return nil
				}
				if r, ok := mgRetry(fset, lhs, c); ok {
					return strings.Split(r, "\x00")
				}
				if fl, ok := c.Fun.(*ast.FuncLit); ok { // err := func() error { … }()
					return append(append([]string{".closureBegin " + qs(lhs)}, mgStmts(fset, fl.Body.List)...), ".closureEnd")
				}
				return []string{fmt.Sprintf(".call %s %s %s %s", qs(lhs), strconv.Quote(fn), qs(exprTexts(fset, c.Args)), qs(innerCalls(fset, c)))}
			}
			if len(lhs) == 1 {
				rhs := oneLine(src(fset, s.Rhs[0]))
				if s.Tok != token.ASSIGN && s.Tok != token.DEFINE { // x += e  →  x = x + e
					rhs = lhs[0] + " " + strings.TrimSuffix(s.Tok.String(), "=") + " " + rhs
				}
				return []string{fmt.Sprintf(".assign %s %s", strconv.Quote(lhs[0]), strconv.Quote(rhs))}
			}
		}
		return []string{".other " + strconv.Quote(oneLine(src(fset, s)))}
	case *ast.ExprStmt:
		if c, ok := s.X.(*ast.CallExpr); ok {
			fn := oneLine(src(fset, c.Fun))
			if mgDropCall(fn) {
				return nil
			}
			if r, ok := mgRetry(fset, nil, c); ok {
				return strings.Split(r, "\x00")
			}
			return []string{fmt.Sprintf(".call [] %s %s %s", strconv.Quote(fn), qs(exprTexts(fset, c.Args)), qs(innerCalls(fset, c)))}
		}
	case *ast.DeferStmt:
		fn := oneLine(src(fset, s.Call.Fun))
		if mgDropCall(fn) {
			return nil
		}
		var calls []string
		if fl, ok := s.Call.Fun.(*ast.FuncLit); ok {
			for _, c := range callsIn(fset, fl.Body) {
				if !mgDropCall(c) {
					calls = append(calls, c)
				}
			}
		} else {
			calls = []string{fn}
		}
		return []string{".deferCalls " + qs(calls)}
	case *ast.ReturnStmt:
		return []string{".ret " + mgVals(fset, s.Results)}
	case *ast.IfStmt:
		var out []string
		if s.Init != nil {
			out = append(out, mgStmt(fset, s.Init)...)
		}
		out = append(out, ".ifBegin "+strconv.Quote(oneLine(src(fset, s.Cond))))
		out = append(out, mgStmts(fset, s.Body.List)...)
		if s.Else != nil {
			out = append(out, ".elseBegin")
			switch e := s.Else.(type) {
			case *ast.BlockStmt:
				out = append(out, mgStmts(fset, e.List)...)
			default:
				out = append(out, mgStmt(fset, e)...)
			}
		}
		return append(out, ".ifEnd")
	case *ast.ForStmt:
		cond := ""
		if s.Cond != nil {
			cond = oneLine(src(fset, s.Cond))
		}
		return append(append([]string{".loopBegin " + strconv.Quote(cond)}, mgStmts(fset, s.Body.List)...), ".loopEnd")
	case *ast.RangeStmt:
		hd := "range " + oneLine(src(fset, s.X))
		if s.Key != nil {
			hd = oneLine(src(fset, s.Key))
			if s.Value != nil {
				hd += ", " + oneLine(src(fset, s.Value))
			}
			hd += " := range " + oneLine(src(fset, s.X))
		}
		return append(append([]string{".loopBegin " + strconv.Quote(hd)}, mgStmts(fset, s.Body.List)...), ".loopEnd")
	case *ast.SelectStmt:
		var out []string
		for _, cc := range s.Body.List {
			cl := cc.(*ast.CommClause)
			comm := "default"
			if cl.Comm != nil {
				comm = oneLine(src(fset, cl.Comm))
			}
			out = append(out, ".selectCase "+strconv.Quote(comm))
			out = append(out, mgStmts(fset, cl.Body)...)
		}
		return append(out, ".selectEnd")
	case *ast.DeclStmt:
		return []string{".other " + strconv.Quote(oneLine(src(fset, s)))}
	case *ast.SwitchStmt:
		// switch [tag] { case A: …; case B: …; default: … }  →  if "case A" { … } else { if "case B" { … } else { default … } }   (first match wins, no fallthrough)
		var out []string
		tag := ""
		if s.Tag != nil {
			tag = oneLine(src(fset, s.Tag)) + " == "
		}
		if s.Init != nil {
			out = append(out, mgStmt(fset, s.Init)...)
		}
		var def *ast.CaseClause
		depth := 0
		for _, cc := range s.Body.List {
			cl := cc.(*ast.CaseClause)
			if cl.List == nil {
				def = cl
				continue
			}
			for _, bs := range cl.Body {
				if br, ok := bs.(*ast.BranchStmt); ok && br.Tok == token.FALLTHROUGH {
					return []string{".other " + strconv.Quote("switch with fallthrough")}
				}
			}
			if depth > 0 {
				out = append(out, ".elseBegin")
			}
			out = append(out, ".ifBegin "+strconv.Quote("case "+tag+strings.Join(exprTexts(fset, cl.List), ", ")))
			out = append(out, mgStmts(fset, cl.Body)...)
			depth++
		}
		if def != nil {
			if depth > 0 {
				out = append(out, ".elseBegin")
			}
			out = append(out, mgStmts(fset, def.Body)...)
		}
		for ; depth > 0; depth-- {
			out = append(out, ".ifEnd")
		}
		return out
	}
	return []string{".other " + strconv.Quote(oneLine(strings.SplitN(src(fset, st), "\n", 2)[0]))}
}

type mgTarget struct{ file, fn, lean string }

var mgTargets = []mgTarget{
	{"pkg/session/session_manager.go", "manager.Create", "create"},
	{"pkg/session/session_manager.go", "manager.Delete", "delete"},
	{"pkg/session/session_manager.go", "manager.DeleteForExternalID", "deleteForExternalID"},
	{"pkg/session/session_manager.go", "manager.GetOrRefresh", "getOrRefresh"},
	{"pkg/session/session_manager.go", "manager.Refresh", "refresh"},
	{"pkg/session/session_manager.go", "manager.deleteForKey", "deleteForKey"},
	{"pkg/session/session_manager.go", "manager.update", "update"},
	{"pkg/session/session_manager.go", "acquireLock", "acquireLock"},
	{"pkg/session/session_reader.go", "reader.Get", "readerGet"},
	{"pkg/session/session_reader.go", "reader.getForTicket", "getForTicket"},
	{"pkg/session/store_redis.go", "redisSessionStore.Read", "redisRead"},
	{"pkg/session/store_redis.go", "redisSessionStore.Write", "redisWrite"},
	{"pkg/session/store_redis.go", "redisSessionStore.Update", "redisUpdate"},
	{"pkg/session/store_redis.go", "redisSessionStore.Delete", "redisDelete"},
	{"pkg/session/store_redis.go", "redisSessionStore.MakeLock", "redisMakeLock"},
	{"pkg/session/store_memory.go", "memorySessionStore.Update", "memoryUpdate"},
	{"pkg/session/store_memory.go", "memorySessionStore.MakeLock", "memoryMakeLock"},
	{"pkg/session/lock.go", "RedisLock.Acquire", "redisLockAcquire"},
	{"pkg/session/lock.go", "RedisLock.Release", "redisLockRelease"},
	{"pkg/retry/retry.go", "fibonacci", "retryFibonacci"},
	{"pkg/retry/retry.go", "Do", "retryDo"},
	{"pkg/retry/retry.go", "DoValue", "retryDoValue"},
}

var hdTargets = []mgTarget{
	{"pkg/handler/handler.go", "Standalone.GetSession", "getSession"},
	{"pkg/handler/handler.go", "Standalone.Logout", "logout"},
	{"pkg/handler/handler.go", "Standalone.LogoutLocal", "logoutLocal"},
	{"pkg/handler/handler.go", "Standalone.LogoutCallback", "logoutCallback"},
	{"pkg/handler/handler.go", "Standalone.LogoutFrontChannel", "logoutFrontChannel"},
	{"pkg/handler/handler.go", "Standalone.Session", "sessionInfo"},
	{"pkg/handler/handler.go", "Standalone.SessionRefresh", "sessionRefresh"},
	{"pkg/handler/handler.go", "Standalone.SessionForwardAuth", "sessionForwardAuth"},
	{"pkg/handler/handler.go", "handleGetSessionError", "handleGetSessionError"},
	{"pkg/handler/handler.go", "Standalone.LoginCallback", "loginCallback"},
	{"pkg/handler/handler_sso_proxy.go", "SSOProxy.GetSession", "proxyGetSession"},
	{"pkg/handler/reverseproxy.go", "ReverseProxy.Handler", "proxyHandler"},
	{"pkg/handler/reverseproxy.go", "getSessionWithValidToken", "getSessionWithValidToken"},
	{"pkg/handler/reverseproxy.go", "handleAutologin", "handleAutologin"},
	{"pkg/handler/reverseproxy.go", "NewReverseProxy#Rewrite", "proxyRewrite"},
	{"pkg/handler/reverseproxy.go", "NewReverseProxy#ErrorHandler", "proxyErrorHandler"},
	{"pkg/handler/reverseproxy.go", "NewUpstreamProxy", "newUpstreamProxy"},
	{"pkg/middleware/context.go", "WithAccessToken", "mwWithAccessToken"},
	{"pkg/middleware/context.go", "AccessTokenFrom", "mwAccessTokenFrom"},
	{"pkg/middleware/context.go", "WithIdToken", "mwWithIdToken"},
	{"pkg/middleware/context.go", "IdTokenFrom", "mwIdTokenFrom"},
	{"pkg/handler/handler_sso_proxy.go", "SSOProxy.GetSSOServerURL", "proxyGetSSOServerURL"},
	{"pkg/handler/handler_sso_proxy.go", "SSOProxy.Login", "proxyLogin"},
	{"pkg/handler/handler_sso_proxy.go", "SSOProxy.LoginCallback", "proxyLoginCallback"},
	{"pkg/handler/handler_sso_proxy.go", "SSOProxy.Logout", "proxyLogout"},
	{"pkg/handler/handler_sso_proxy.go", "SSOProxy.LogoutCallback", "proxyLogoutCallback"},
	{"pkg/handler/handler_sso_proxy.go", "SSOProxy.LogoutFrontChannel", "proxyLogoutFrontChannel"},
	{"pkg/handler/handler_sso_proxy.go", "SSOProxy.LogoutLocal", "proxyLogoutLocal"},
	{"pkg/handler/handler_sso_proxy.go", "SSOProxy.Session", "proxySession"},
	{"pkg/handler/handler_sso_proxy.go", "SSOProxy.SessionRefresh", "proxySessionRefresh"},
	{"pkg/handler/handler_sso_proxy.go", "SSOProxy.SessionForwardAuth", "proxySessionForwardAuth"},
	{"pkg/handler/handler_sso_proxy.go", "SSOProxy.Wildcard", "proxyWildcard"},
	{"pkg/handler/handler_sso_server.go", "SSOServer.Logout", "serverLogout"},
	{"pkg/handler/handler_sso_server.go", "SSOServer.LogoutFrontChannel", "serverLogoutFrontChannel"},
	{"pkg/handler/handler_sso_server.go", "SSOServer.LogoutLocal", "serverLogoutLocal"},
	{"pkg/handler/handler_sso_server.go", "SSOServer.Wildcard", "serverWildcard"},
	{"pkg/openid/client/login_callback.go", "Client.LoginCallback", "clientLoginCallback"},
	{"pkg/openid/client/login_callback.go", "Client.authorizationServerIssuerIdentification", "issuerIdentification"},
	{"pkg/openid/client/login_callback.go", "Client.redeemTokens", "redeemTokens"},
	{"pkg/openid/oauth2.go", "StateMismatchError", "stateMismatchError"},
	{"pkg/handler/handler.go", "Standalone.GetCookieOptions", "getCookieOptions"},
	{"pkg/handler/handler.go", "Standalone.Login", "login"},
	{"pkg/handler/handler.go", "Standalone.applyLoginRateLimit", "applyLoginRateLimit"},
	{"pkg/handler/error.go", "Standalone.respondError", "respondError"},
	{"pkg/handler/error.go", "Standalone.Retry", "retryURI"},
	{"pkg/url/redirect.go", "NewStandaloneRedirect", "newStandaloneRedirect"},
	{"pkg/url/redirect.go", "StandaloneRedirect.Canonical", "standaloneCanonical"},
	{"pkg/url/redirect.go", "StandaloneRedirect.Clean", "standaloneClean"},
	{"pkg/url/redirect.go", "StandaloneRedirect.getFallbackRedirect", "standaloneFallback"},
	{"pkg/url/redirect.go", "NewSSOServerRedirect", "newSSOServerRedirect"},
	{"pkg/url/redirect.go", "SSOServerRedirect.Canonical", "ssoServerCanonical"},
	{"pkg/url/redirect.go", "SSOServerRedirect.Clean", "ssoServerClean"},
	{"pkg/url/redirect.go", "NewSSOProxyRedirect", "newSSOProxyRedirect"},
	{"pkg/url/redirect.go", "SSOProxyRedirect.Canonical", "ssoProxyCanonical"},
	{"pkg/url/redirect.go", "SSOProxyRedirect.Clean", "ssoProxyClean"},
	{"pkg/url/redirect.go", "SSOProxyRedirect.getFallbackRedirect", "ssoProxyFallback"},
	{"pkg/url/redirect.go", "clean", "cleanRedirect"},
	{"pkg/url/redirect.go", "redirectQueryParam", "redirectQueryParam"},
	{"pkg/url/redirect.go", "fallback", "fallbackRedirect"},
	{"pkg/url/validator.go", "AbsoluteValidator.IsValidRedirect", "absoluteIsValid"},
	{"pkg/url/validator.go", "RelativeValidator.IsValidRedirect", "relativeIsValid"},
	{"pkg/url/validator.go", "parsableRequestURI", "parsableRequestURI"},
	{"pkg/url/validator.go", "isAllowedHost", "isAllowedHost"},
	{"pkg/url/validator.go", "isValidScheme", "isValidScheme"},
	{"pkg/url/validator.go", "isRelativeURL", "isRelativeURL"},
	{"pkg/url/validator.go", "isValidAbsolutePath", "isValidAbsolutePath"},
	{"pkg/url/validator.go", "isAllowedDomain", "isAllowedDomain"},
	{"pkg/handler/acr/acr.go", "Handler.Validate", "acrHandlerValidate"},
	{"pkg/handler/acr/acr.go", "NewHandler", "acrNewHandler"},
	{"pkg/ingress/ingress.go", "Ingresses.MatchingIngress", "matchingIngress"},
	{"pkg/ingress/ingress.go", "Ingresses.MatchingPath", "matchingPath"},
	{"pkg/ingress/ingress.go", "ParseIngress", "parseIngress"},
	{"pkg/ingress/ingress.go", "mustScheme", "mustScheme"},
	{"pkg/openid/client/login.go", "Client.Login", "clientLogin"},
	{"pkg/openid/client/login.go", "Client.newAuthorizationCodeParams", "newAuthorizationCodeParams"},
	{"pkg/openid/client/login.go", "Client.authCodeURL", "authCodeURL"},
	{"pkg/openid/client/login.go", "Login.SetCookie", "loginSetCookie"},
	{"pkg/openid/oauth2.go", "AuthorizationCodeParams.RequestParams", "authRequestParams"},
	{"pkg/openid/oauth2.go", "AuthorizationCodeParams.Cookie", "authCookie"},
	{"pkg/openid/oauth2.go", "ParAuthorizationRequestParams", "parRequestParams"},
}

// the sealing envelope: crypter, cookie sealing, ticket, session data sealing (C09)
var cyTargets = []mgTarget{
	{"internal/crypto/crypter.go", "NewCrypter", "newCrypter"},
	{"internal/crypto/crypter.go", "EncryptionKeyOrGenerate", "encryptionKeyOrGenerate"},
	{"internal/crypto/crypter.go", "crypter.Encrypt", "crypterEncrypt"},
	{"internal/crypto/crypter.go", "crypter.Decrypt", "crypterDecrypt"},
	{"pkg/cookie/cookie.go", "Cookie.Encrypt", "cookieEncrypt"},
	{"pkg/cookie/cookie.go", "Cookie.Decrypt", "cookieDecrypt"},
	{"pkg/cookie/cookie.go", "Get", "cookieGet"},
	{"pkg/cookie/cookie.go", "GetDecrypted", "cookieGetDecrypted"},
	{"pkg/cookie/cookie.go", "EncryptAndSet", "cookieEncryptAndSet"},
	{"pkg/cookie/cookie.go", "Set", "cookieSet"},
	{"pkg/session/ticket.go", "NewTicket", "newTicket"},
	{"pkg/session/ticket.go", "Ticket.Crypter", "ticketCrypter"},
	{"pkg/session/ticket.go", "Ticket.Key", "ticketKey"},
	{"pkg/session/ticket.go", "Ticket.SetCookie", "ticketSetCookie"},
	{"pkg/session/ticket.go", "getTicket", "getTicket"},
	{"pkg/session/data.go", "EncryptedData.Decrypt", "encryptedDataDecrypt"},
	{"pkg/session/data.go", "Data.Encrypt", "dataEncrypt"},
	{"pkg/session/data.go", "Data.Validate", "dataValidate"},
	{"pkg/session/session.go", "Session.encrypt", "sessionEncrypt"},
	{"pkg/session/session.go", "Session.key", "sessionKey"},
	{"pkg/session/session.go", "Session.SetCookie", "sessionSetCookie"},
	{"pkg/session/session.go", "Session.AccessToken", "sessionAccessToken"},
	{"pkg/session/session.go", "NewSession", "newSession"},
}

// the provider-facing side: token validation, grants, logout URLs (C01 C03 C05 C06 C11)
var pvTargets = []mgTarget{
	{"pkg/openid/tokens.go", "NewTokens", "newTokens"},
	{"pkg/openid/tokens.go", "ParseIDToken", "parseIDToken"},
	{"pkg/openid/tokens.go", "IDToken.Validate", "idTokenValidate"},
	{"pkg/openid/tokens.go", "IDToken.Claim", "idTokenClaim"},
	{"pkg/openid/tokens.go", "IDToken.StringClaim", "idTokenStringClaim"},
	{"pkg/openid/tokens.go", "IDToken.Sid", "idTokenSid"},
	{"pkg/openid/tokens.go", "IDToken.Acr", "idTokenAcr"},
	{"pkg/openid/client/client.go", "Client.AuthCodeGrant", "authCodeGrant"},
	{"pkg/openid/client/client.go", "Client.RefreshGrant", "refreshGrant"},
	{"pkg/openid/client/client.go", "Client.ClientAuthenticationParams", "clientAuthenticationParams"},
	{"pkg/openid/client/client.go", "Client.MakeAssertion", "makeAssertion"},
	{"pkg/openid/client/client.go", "Client.oauthPostRequest", "oauthPostRequest"},
	{"pkg/openid/client/logout.go", "NewLogout", "newLogout"},
	{"pkg/openid/client/logout.go", "Logout.SingleLogoutURL", "singleLogoutURL"},
	{"pkg/openid/client/logout.go", "Logout.SetCookie", "logoutSetCookie"},
	{"pkg/openid/client/logout_callback.go", "NewLogoutCallback", "newLogoutCallback"},
	{"pkg/openid/client/logout_callback.go", "LogoutCallback.PostLogoutRedirectURI", "postLogoutRedirectURI"},
	{"pkg/openid/client/logout_callback.go", "LogoutCallback.stateMismatchError", "logoutStateMismatchError"},
	{"pkg/openid/client/logout_frontchannel.go", "NewLogoutFrontchannel", "newLogoutFrontchannel"},
	{"pkg/openid/client/logout_frontchannel.go", "LogoutFrontchannel.Sid", "frontchannelSid"},
	{"pkg/openid/client/logout_frontchannel.go", "LogoutFrontchannel.MissingSidParameter", "frontchannelMissingSid"},
	{"pkg/openid/provider/provider.go", "JwksProvider.GetPublicJwkSet", "jwksGet"},
	{"pkg/openid/provider/provider.go", "JwksProvider.RefreshPublicJwkSet", "jwksRefresh"},
	{"pkg/openid/provider/provider.go", "NewJwksProvider", "newJwksProvider"},
	{"pkg/openid/provider/provider.go", "keySetMutator", "keySetMutator"},
	{"pkg/middleware/ingress.go", "IngressMiddleware.Handler", "ingressMiddleware"},
	{"pkg/handler/autologin/autologin.go", "New", "autologinNew"},
	{"pkg/openid/config/provider.go", "provider.SidClaimRequired", "sidClaimRequired"},
	{"pkg/openid/config/provider.go", "provider.SessionStateRequired", "sessionStateRequired"},
	{"pkg/openid/config/provider.go", "provider.AuthorizationResponseIssParameterSupported", "issParameterSupported"},
	{"pkg/openid/config/provider.go", "provider.Issuer", "providerIssuer"},
	{"pkg/openid/config/provider.go", "provider.JwksURI", "providerJwksURI"},
	{"pkg/openid/config/provider.go", "provider.TokenEndpoint", "providerTokenEndpoint"},
	{"pkg/openid/config/provider.go", "Supported.Contains", "supportedContains"},
	{"pkg/config/openid.go", "OpenID.TrustedAudiences", "trustedAudiences"},
	{"pkg/openid/config/client.go", "client.Audiences", "clientAudiences"},
	{"pkg/openid/config/client.go", "client.ClientID", "clientClientID"},
}

// start-up: configuration validation and the order of run() (C20)
var suTargets = []mgTarget{
	{"cmd/wonderwall/main.go", "run", "mainRun"},
	{"cmd/wonderwall/main.go", "standalone", "mainStandalone"},
	{"cmd/wonderwall/main.go", "ssoServer", "mainSsoServer"},
	{"cmd/wonderwall/main.go", "ssoProxy", "mainSsoProxy"},
	{"pkg/config/config.go", "Config.Validate", "configValidate"},
	{"pkg/config/config.go", "Config.validateUpstream", "validateUpstream"},
	{"pkg/config/cookie.go", "Cookie.Validate", "cookieCfgValidate"},
	{"pkg/config/cookie.go", "SameSite.Validate", "sameSiteValidate"},
	{"pkg/config/sso.go", "SSO.Validate", "ssoValidate"},
	{"pkg/config/openid.go", "OpenID.Validate", "openidCfgValidate"},
	{"pkg/openid/config/provider.go", "ProviderMetadata.Validate", "providerValidate"},
	{"pkg/openid/config/provider.go", "ProviderMetadata.validateAcrValues", "providerValidateAcr"},
	{"pkg/openid/config/provider.go", "ProviderMetadata.validateLocaleValues", "providerValidateLocale"},
	{"pkg/openid/config/provider.go", "ProviderMetadata.validateIDTokenSigningAlg", "providerValidateAlg"},
	{"pkg/openid/config/client.go", "NewClientConfig", "newClientConfig"},
	{"pkg/openid/config/config.go", "NewConfig", "newOpenidConfig"},
	{"pkg/openid/config/provider.go", "NewProviderConfig", "newProviderConfig"},
	{"pkg/ingress/ingress.go", "ParseIngresses", "parseIngresses"},
	{"pkg/session/store.go", "NewStore", "newStore"},
	{"pkg/config/config.go", "Initialize", "configInitialize"},
	{"pkg/handler/handler.go", "NewStandalone", "newStandalone"},
	{"pkg/handler/handler_sso_proxy.go", "NewSSOProxy", "newSSOProxy"},
	{"pkg/handler/handler_sso_server.go", "NewSSOServer", "newSSOServer"},
	{"pkg/session/session_manager.go", "NewManager", "newManager"},
	{"pkg/session/session_reader.go", "NewReader", "newReader"},
}

// small helpers the other groups lean on: request parameters, cookie readers, keys, callback URLs, memory store (C02 C05 C07 C10 C13 C17)
var msTargets = []mgTarget{
	{"pkg/openid/oauth2.go", "RequestParams.With", "paramsWith"},
	{"pkg/openid/oauth2.go", "RequestParams.AuthCodeOptions", "paramsAuthCodeOptions"},
	{"pkg/openid/oauth2.go", "RequestParams.URLValues", "paramsURLValues"},
	{"pkg/openid/oauth2.go", "ExchangeAuthorizationCodeParams", "exchangeParams"},
	{"pkg/openid/oauth2.go", "RefreshGrantParams", "refreshGrantParams"},
	{"pkg/openid/oauth2.go", "ClientAuthSecretParams", "clientAuthSecretParams"},
	{"pkg/openid/oauth2.go", "ClientAuthJwtBearerParams", "clientAuthJwtBearerParams"},
	{"pkg/openid/cookies.go", "GetLoginCookie", "getLoginCookie"},
	{"pkg/openid/cookies.go", "GetLogoutCookie", "getLogoutCookie"},
	{"pkg/session/id.go", "ExternalID", "externalID"},
	{"pkg/session/id.go", "getSessionStateFrom", "getSessionStateFrom"},
	{"pkg/session/session_manager.go", "manager.key", "managerKey"},
	{"pkg/session/lock.go", "lockKey", "lockKey"},
	{"pkg/session/lock.go", "NewRedisLock", "newRedisLock"},
	{"pkg/session/store_memory.go", "memorySessionStore.Read", "memoryRead"},
	{"pkg/session/store_memory.go", "memorySessionStore.Write", "memoryWrite"},
	{"pkg/session/store_memory.go", "memorySessionStore.Delete", "memoryDelete"},
	{"pkg/session/store_memory.go", "memoryLock.Acquire", "memoryLockAcquire"},
	{"pkg/session/store_memory.go", "memoryLock.Release", "memoryLockRelease"},
	{"pkg/url/url.go", "LoginCallback", "urlLoginCallback"},
	{"pkg/url/url.go", "LogoutCallback", "urlLogoutCallback"},
	{"pkg/url/url.go", "makeCallbackURL", "makeCallbackURL"},
	{"pkg/url/url.go", "MatchingIngress", "urlMatchingIngress"},
	{"pkg/url/url.go", "MatchingPath", "urlMatchingPath"},
	{"pkg/url/url.go", "LoginRelative", "urlLoginRelative"},
	{"pkg/handler/error.go", "getRetryAttempts", "getRetryAttempts"},
	{"pkg/handler/error.go", "Standalone.defaultErrorResponse", "defaultErrorResponse"},
	{"pkg/handler/handler.go", "Standalone.Wildcard", "standaloneWildcard"},
	{"pkg/handler/path.go", "GetPath", "handlerGetPath"},
	{"pkg/handler/handler_sso_proxy.go", "removeMiddlewareHeaders", "removeMiddlewareHeaders"},
	{"internal/http/middleware.go", "DisallowNonNavigationalRequests", "disallowNonNavigational"},
	{"pkg/strings/generator.go", "GenerateBase64", "generateBase64"},
	{"pkg/strings/generator.go", "Generate", "generateBytes"},
	{"pkg/cookie/cookie.go", "ConfigureCookieNamesWithPrefix", "configureCookieNames"},
	{"pkg/cookie/cookie.go", "SetLegacyCookie", "setLegacyCookie"},
	{"pkg/cookie/cookie.go", "ClearLegacyCookies", "clearLegacyCookies"},
}

func genManager() {
	genSkeletons("Helpers.lean", "Ww.Gen.Helpers", "Helpers", "-- Control-flow skeletons of small helpers (request parameters, cookie readers, keys, callback URLs, memory store), statement by statement in source order.\n",
		"import Ww.Gen.Manager\n", false, msTargets)
	genSkeletons("Startup.lean", "Ww.Gen.Startup", "Startup", "-- Control-flow skeletons of start-up: run(), the mode constructors and every configuration validation, statement by statement in source order.\n",
		"import Ww.Gen.Manager\n", false, suTargets)
	genSkeletons("Provider.lean", "Ww.Gen.Provider", "Provider", "-- Control-flow skeletons of the provider-facing code (token validation, grants, logout), statement by statement in source order.\n",
		"import Ww.Gen.Manager\n", false, pvTargets)
	genSkeletons("Envelope.lean", "Ww.Gen.Envelope", "Envelope", "-- Control-flow skeletons of the sealing envelope (crypter, cookie sealing, ticket, session data), statement by statement in source order.\n",
		"import Ww.Gen.Manager\n", false, cyTargets)
	genSkeletons("Manager.lean", "Ww.Gen.Manager", "Manager", "-- Control-flow skeletons of the session manager, the session reader and the stores, statement by statement in source order.\n", "", true, mgTargets)
	genSkeletons("Handlers.lean", "Ww.Gen.Handlers", "Handlers", "-- Control-flow skeletons of the session-bearing HTTP handlers, statement by statement in source order (types from Ww.Gen.Manager).\n",
		"import Ww.Gen.Manager\n", false, hdTargets)
}

func genSkeletons(file, ns, section, comment, imports string, declTypes bool, targets []mgTarget) {
	fset := token.NewFileSet()
	var b strings.Builder
	b.WriteString(imports)
	b.WriteString(header)
	b.WriteString(comment)
	b.WriteString("namespace " + ns + "\n\n")
	if !declTypes {
		b.WriteString("open Ww.Gen.Manager\n\n")
	}
	if declTypes {
		b.WriteString("inductive MgVal where\n  | nil\n  | retryable                       -- retry.RetryableError(err)\n  | wrap (sentinels : List String)  -- fmt.Errorf with these %w operands\n  | expr (s : String)\n  deriving Repr, DecidableEq\n\n")
		b.WriteString("inductive MgStmt where\n" +
			"  | call (lhs : List String) (fn : String) (args : List String) (inner : List String)   -- lhs := fn(args); inner = calls made inside closure arguments\n" +
			"  | retry (lhs : List String) (fn : String) (args : List String) (defaultRetry : Bool) (retryOn stopOn : List String)   -- retry.Do/DoValue around ONE call\n" +
			"  | assign (lhs rhs : String)\n  | ifBegin (cond : String)\n  | elseBegin\n  | ifEnd\n  | ret (vals : List MgVal)\n  | deferCalls (fns : List String)\n" +
			"  | closureBegin (lhs : List String)\n  | closureEnd\n  | loopBegin (cond : String)\n  | loopEnd\n  | selectCase (comm : String)\n  | selectEnd\n  | other (s : String)\n  deriving Repr, DecidableEq\n\n")
	}
	files := map[string]*ast.File{}
	for _, t := range targets {
		f, ok := files[t.file]
		if !ok {
			f = parseFile(fset, t.file)
			files[t.file] = f
		}
		var ops []string
		found := false
		if f != nil {
			for _, d := range f.Decls {
				fd, ok := d.(*ast.FuncDecl)
				if !ok || fd.Body == nil {
					continue
				}
				name, _, _ := funcLeanName(fd)
				want, lit := t.fn, ""
				if i := strings.Index(t.fn, "#"); i >= 0 { // "Func#Key": the function literal given for field Key of a composite literal inside Func
					want, lit = t.fn[:i], t.fn[i+1:]
				}
				if name != want {
					continue
				}
				if lit == "" {
					found = true
					ops = mgStmts(fset, fd.Body.List)
					continue
				}
				ast.Inspect(fd.Body, func(n ast.Node) bool {
					kv, ok := n.(*ast.KeyValueExpr)
					if !ok {
						return true
					}
					if id, ok := kv.Key.(*ast.Ident); ok && id.Name == lit {
						if fl, ok := kv.Value.(*ast.FuncLit); ok && !found {
							found = true
							ops = mgStmts(fset, fl.Body.List)
						}
					}
					return true
				})
			}
		}
		if !found {
			probs.add(section+"/"+t.lean, "function "+t.fn+" not found in "+t.file)
			continue
		}
		fmt.Fprintf(&b, "/-- %s:%s -/\ndef %s : List MgStmt := [\n", t.file, t.fn, t.lean)
		for i, o := range ops {
			sep := ","
			if i == len(ops)-1 {
				sep = ""
			}
			fmt.Fprintf(&b, "  %s%s\n", o, sep)
		}
		b.WriteString("]\n\n")
	}
	if file == "Helpers.lean" || file == "Envelope.lean" {
		// which packages the random bytes come from: the import lists of the files that read `rand.Reader` / call `cryptorand.Read`
		for _, imp := range []struct{ file, lean string }{{"pkg/strings/generator.go", "generatorImports"}, {"internal/crypto/crypter.go", "crypterImports"}} {
			if (file == "Helpers.lean") != (imp.lean == "generatorImports") {
				continue
			}
			f := files[imp.file]
			if f == nil {
				f = parseFile(fset, imp.file)
			}
			var names []string
			if f != nil {
				for _, is := range f.Imports {
					n := is.Path.Value
					if is.Name != nil {
						n = strconv.Quote(is.Name.Name + "=" + strings.Trim(is.Path.Value, "\""))
					}
					names = append(names, n)
				}
			}
			fmt.Fprintf(&b, "/-- %s: import list (alias=path for renamed imports) -/\ndef %s : List String := [%s]\n\n", imp.file, imp.lean, strings.Join(names, ", "))
		}
	}
	b.WriteString("end " + ns + "\n")
	writeGen(file, b.String())
}
