package main

// Gen/LogSites.lean: every logging call and every error construction of the module (non-test sources), with the source text of each argument.

import (
	"fmt"
	"go/ast"
	"go/token"
	"os"
	"path/filepath"
	"sort"
	"strconv"
	"strings"
)

func init() { tableGens = append(tableGens, genLogSites) }

var logMethods = map[string]bool{"Debug": true, "Debugf": true, "Debugln": true, "Info": true, "Infof": true, "Infoln": true, "Warn": true, "Warnf": true, "Warning": true, "Warningf": true,
	"Error": true, "Errorf": true, "Fatal": true, "Fatalf": true, "Panic": true, "Panicf": true, "Trace": true, "Tracef": true, "Print": true, "Printf": true, "Println": true,
	"Log": true, "Logf": true, "WithField": true, "WithFields": true, "WithError": true}

func looksLikeLogger(recv string) bool {
	r := strings.ToLower(recv)
	return strings.Contains(r, "log") || strings.Contains(r, "entry")
}

func genLogSites() {
	fset := token.NewFileSet()
	var files []string
	for _, root := range []string{"pkg", "internal", "cmd", "templates"} {
		filepath.Walk(filepath.Join(*repo, root), func(p string, info os.FileInfo, err error) error {
			if err == nil && !info.IsDir() && strings.HasSuffix(p, ".go") && !strings.HasSuffix(p, "_test.go") && !strings.Contains(p, "/mock/") {
				files = append(files, p)
			}
			return nil
		})
	}
	sort.Strings(files)
	type site struct {
		file, fn, kind, callee string
		args                   []string
	}
	var sites []site
	for _, path := range files {
		rel, _ := filepath.Rel(*repo, path)
		f := parseFile(fset, rel)
		if f == nil {
			continue
		}
		for _, d := range f.Decls {
			fd, ok := d.(*ast.FuncDecl)
			if !ok || fd.Body == nil {
				continue
			}
			fname, _, _ := funcLeanName(fd)
			ast.Inspect(fd.Body, func(n ast.Node) bool {
				call, ok := n.(*ast.CallExpr)
				if !ok {
					return true
				}
				sel, ok := call.Fun.(*ast.SelectorExpr)
				if !ok {
					return true
				}
				recv := src(fset, sel.X)
				kind := ""
				switch {
				case recv == "fmt" && sel.Sel.Name == "Errorf", recv == "errors" && sel.Sel.Name == "New":
					kind = "error"
				case logMethods[sel.Sel.Name] && looksLikeLogger(recv) && recv != "fmt":
					kind = "log"
				case recv == "span" && (sel.Sel.Name == "SetAttributes" || sel.Sel.Name == "RecordError"):
					return true // tracing attributes are outside "log line" (DESIGN §6)
				}
				if kind == "" {
					return true
				}
				var args []string
				for _, a := range call.Args {
					args = append(args, src(fset, a))
				}
				sites = append(sites, site{rel, fname, kind, recv + "." + sel.Sel.Name, args})
				return true
			})
		}
	}
	var b strings.Builder
	b.WriteString(header)
	b.WriteString("-- Every logging call (kind \"log\") and every error construction (kind \"error\") of the non-test sources: (file, function, kind, callee, argument source texts).\nnamespace Ww.Gen.LogSites\n\n")
	b.WriteString("def sites : List (String × String × String × String × List String) := [\n")
	for i, s := range sites {
		sep := ","
		if i == len(sites)-1 {
			sep = ""
		}
		callee := s.callee
		if len(callee) > 80 {
			callee = callee[len(callee)-80:]
		}
		fmt.Fprintf(&b, "  (%s, %s, %s, %s, %s)%s\n", strconv.Quote(s.file), strconv.Quote(s.fn), strconv.Quote(s.kind), strconv.Quote(callee), qs(s.args), sep)
	}
	b.WriteString("]\n\n")
	// the same table reduced to what a run-time secret could travel in: per site the arguments that are NOT string literals (a literal is program text), and
	// for log sites whose format literal contains %v / %+v the values it formats. (Deciding "is a literal" here keeps thousands of characters of format
	// strings out of the kernel's string evaluation, which is slow; the classification is purely syntactic: ast.BasicLit of kind STRING.)
	isLit := func(a string) bool { return strings.HasPrefix(a, "\"") || strings.HasPrefix(a, "`") }
	b.WriteString("def nonLiteralArgs : List (List String) := [\n")
	for i, s := range sites {
		var nl []string
		for _, a := range s.args {
			if !isLit(a) {
				nl = append(nl, a)
			}
		}
		sep := ","
		if i == len(sites)-1 {
			sep = ""
		}
		fmt.Fprintf(&b, "  %s%s\n", qs(nl), sep)
	}
	b.WriteString("]\n\n")
	// … and the same arguments as lists of Unicode code points: the kernel compares natural numbers fast, while decoding a string literal costs it
	// milliseconds per character
	codes := func(a string) string {
		var cs []string
		for _, r := range a {
			cs = append(cs, strconv.Itoa(int(r)))
		}
		return "[" + strings.Join(cs, ", ") + "]"
	}
	b.WriteString("def nonLiteralArgCodes : List (List (List Nat)) := [\n")
	for i, s := range sites {
		var nl []string
		for _, a := range s.args {
			if !isLit(a) {
				nl = append(nl, codes(a))
			}
		}
		sep := ","
		if i == len(sites)-1 {
			sep = ""
		}
		fmt.Fprintf(&b, "  [%s]%s\n", strings.Join(nl, ", "), sep)
	}
	b.WriteString("]\n\n")
	var verbArgs []string
	for _, s := range sites {
		if s.kind == "log" && len(s.args) > 0 && isLit(s.args[0]) && (strings.Contains(s.args[0], "%+v") || strings.Contains(s.args[0], "%v")) {
			verbArgs = append(verbArgs, s.args[1:]...)
		}
	}
	fmt.Fprintf(&b, "def verbFormattedArgs : List String := %s\n\n", qs(verbArgs))
	// the fields masked before the start-up banner is printed
	cf := parseFile(fset, "pkg/config/config.go")
	var masked, maskedRhs []string
	if cf != nil {
		ast.Inspect(cf, func(n ast.Node) bool {
			as, ok := n.(*ast.AssignStmt)
			if ok && len(as.Lhs) == 1 && len(as.Rhs) == 1 {
				l := src(fset, as.Lhs[0])
				if strings.HasPrefix(l, "masked.") {
					masked = append(masked, strings.TrimPrefix(l, "masked."))
					maskedRhs = append(maskedRhs, fmt.Sprintf("(%s, %s)", strconv.Quote(strings.TrimPrefix(l, "masked.")), strconv.Quote(src(fset, as.Rhs[0]))))
				}
			}
			return true
		})
	}
	fmt.Fprintf(&b, "def maskedConfigFields : List String := %s\n\n", qs(masked))
	// what each masked field is overwritten WITH (the expression): a masker that depends on the secret's own text can miss it
	fmt.Fprintf(&b, "def maskedConfigAssignments : List (String × String) := [%s]\n\n", strings.Join(maskedRhs, ", "))
	// what internal/http.Attributes puts into every request log entry, and what its helpers read from a cookie
	rf := parseFile(fset, "internal/http/request.go")
	var attrs, cookieReads []string
	if rf != nil {
		for _, d := range rf.Decls {
			fd, ok := d.(*ast.FuncDecl)
			if !ok || fd.Body == nil {
				continue
			}
			switch fd.Name.Name {
			case "Attributes":
				ast.Inspect(fd.Body, func(n ast.Node) bool {
					if kv, ok := n.(*ast.KeyValueExpr); ok {
						attrs = append(attrs, src(fset, kv.Key)+" => "+src(fset, kv.Value))
					}
					return true
				})
			case "nonEmptyRequestCookies", "refererStripped":
				ast.Inspect(fd.Body, func(n ast.Node) bool {
					if se, ok := n.(*ast.SelectorExpr); ok {
						cookieReads = append(cookieReads, fd.Name.Name+": "+src(fset, se))
					}
					return true
				})
			}
		}
	}
	if len(attrs) == 0 {
		probs.add("LogSites", "internal/http.Attributes not found")
	}
	fmt.Fprintf(&b, "def requestAttributes : List String := %s\n\ndef requestAttributeHelperReads : List String := %s\n\nend Ww.Gen.LogSites\n", qs(attrs), qs(cookieReads))
	writeGen("LogSites.lean", b.String())
	if len(sites) < 20 {
		probs.add("LogSites", "suspiciously few log sites found")
	}
	factMap["logsites"] = len(sites)
}
