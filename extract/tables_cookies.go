package main

// Gen/Cookies.lean: every site that sets or clears a wonderwall cookie, with the cookie it concerns and the options expression
// (local variables substituted by their defining expression within the function).

import (
	"fmt"
	"go/ast"
	"go/token"
	"path/filepath"
	"sort"
	"strconv"
	"strings"
)

func init() { tableGens = append(tableGens, genCookies) }

type cookieSite struct{ fn, kind, name, opts string }

func genCookies() {
	fset := token.NewFileSet()
	var files []string
	for _, g := range []string{"pkg/handler/*.go", "pkg/openid/client/*.go", "pkg/session/*.go"} {
		m, _ := filepath.Glob(filepath.Join(*repo, g))
		files = append(files, m...)
	}
	sort.Strings(files)
	var sites []cookieSite
	recvCookie := map[string]string{"login": "cookie.Login", "logout": "cookie.Logout", "sess": "cookie.Session", "in.ticket": "cookie.Session", "c": "cookie.Session"}
	for _, path := range files {
		if strings.HasSuffix(path, "_test.go") {
			continue
		}
		rel, _ := filepath.Rel(*repo, path)
		f := parseFile(fset, rel)
		if f == nil {
			continue
		}
		for _, d := range f.Decls {
			fd, ok := d.(*ast.FuncDecl)
			if !ok || fd.Body == nil {
				continue
			}
			fname, _, _ := funcLeanName(fd)
			// local definitions: name -> defining expression source (last one wins; good enough for straight-line handler code)
			defs := map[string]string{}
			params := map[string]bool{}
			for _, p := range fd.Type.Params.List {
				for _, n := range p.Names {
					params[n.Name] = true
				}
			}
			ast.Inspect(fd.Body, func(n ast.Node) bool {
				if as, ok := n.(*ast.AssignStmt); ok && len(as.Lhs) == len(as.Rhs) {
					for i, l := range as.Lhs {
						if id, ok := l.(*ast.Ident); ok {
							defs[id.Name] = src(fset, as.Rhs[i])
						}
					}
				}
				return true
			})
			var resolve func(e ast.Expr, depth int) string
			resolve = func(e ast.Expr, depth int) string {
				s := src(fset, e)
				if id, ok := e.(*ast.Ident); ok && depth < 4 {
					if params[id.Name] {
						return "param:" + id.Name
					}
					if d, ok := defs[id.Name]; ok {
						return d
					}
				}
				// opts.WithX(...) where opts is a local
				if call, ok := e.(*ast.CallExpr); ok {
					if sel, ok := call.Fun.(*ast.SelectorExpr); ok {
						if id, ok := sel.X.(*ast.Ident); ok && depth < 4 {
							base := id.Name
							if params[id.Name] {
								base = "param:" + id.Name
							} else if d, ok := defs[id.Name]; ok {
								base = d
							}
							args := []string{}
							for _, a := range call.Args {
								args = append(args, src(fset, a))
							}
							return base + "." + sel.Sel.Name + "(" + strings.Join(args, ", ") + ")"
						}
					}
				}
				return s
			}
			ast.Inspect(fd.Body, func(n ast.Node) bool {
				call, ok := n.(*ast.CallExpr)
				if !ok {
					return true
				}
				callee := src(fset, call.Fun)
				switch {
				case callee == "cookie.Clear" && len(call.Args) == 3:
					sites = append(sites, cookieSite{fname, "clear", src(fset, call.Args[1]), resolve(call.Args[2], 0)})
				case callee == "cookie.EncryptAndSet" && len(call.Args) == 5:
					sites = append(sites, cookieSite{fname, "set", src(fset, call.Args[1]), resolve(call.Args[3], 0)})
				case callee == "cookie.Make" && len(call.Args) == 3:
					sites = append(sites, cookieSite{fname, "set", src(fset, call.Args[0]), resolve(call.Args[2], 0)})
				case callee == "cookie.SetLegacyCookie" && len(call.Args) == 3:
					sites = append(sites, cookieSite{fname, "set", "cookie.legacy", resolve(call.Args[2], 0)})
				case callee == "cookie.ClearLegacyCookies" && len(call.Args) == 2:
					sites = append(sites, cookieSite{fname, "clear", "cookie.legacy", resolve(call.Args[1], 0)})
				case callee == "incrementRetryAttempt" && len(call.Args) == 3:
					sites = append(sites, cookieSite{fname, "set", "cookie.Retry", resolve(call.Args[2], 0)})
				case strings.HasSuffix(callee, ".SetCookie") && len(call.Args) >= 3:
					recv := strings.TrimSuffix(callee, ".SetCookie")
					name, ok := recvCookie[recv]
					if !ok {
						name = "unknown:" + recv
					}
					sites = append(sites, cookieSite{fname, "set", name, resolve(call.Args[1], 0)})
				}
				return true
			})
		}
	}
	var b strings.Builder
	b.WriteString(header)
	b.WriteString("-- Every site that sets or clears a cookie: (function, set|clear, cookie name symbol, options expression).\nnamespace Ww.Gen.Cookies\n\n")
	b.WriteString("def sites : List (String × String × String × String) := [\n")
	for i, s := range sites {
		sep := ","
		if i == len(sites)-1 {
			sep = ""
		}
		fmt.Fprintf(&b, "  (%s, %s, %s, %s)%s\n", strconv.Quote(s.fn), strconv.Quote(s.kind), strconv.Quote(s.name), strconv.Quote(s.opts), sep)
	}
	b.WriteString("]\n\nend Ww.Gen.Cookies\n")
	writeGen("Cookies.lean", b.String())
	if len(sites) == 0 {
		probs.add("Cookies", "no cookie call sites found")
	}
}
