package main

// Gen/Dec.lean: a second, equally tiny translator for the DECISION functions of the request path (string / boolean / small-integer logic):
// what counts as a navigation, which acr / locale / prompt value goes into an authorization request, when an ACR satisfies a requirement,
// when an error is answered with an automatic retry, when auto-login intercepts. Each Go function becomes a Lean function whose parameters are
// the things the Go code READS from its environment (a header, a query parameter, a configured default, a provider's advertised list); the
// table below says which Go expression is which parameter. Logging / tracing / memoisation statements are dropped (listed per function).
// Anything else that is not in the subset is an extraction problem (tie G broken) - nothing is guessed.
//
// The hand-written models used by the proofs are then PROVED equal to these translations (Ww/Proofs/GenTie.lean), so the model's decision logic is
// tied to the source by a theorem that is re-checked on every run, not only by differential runs.

import (
	"fmt"
	"go/ast"
	"go/token"
	"strconv"
	"strings"
)

func init() { tableGens = append(tableGens, genDec) }

type decSpec struct {
	file   string
	fn     string            // function name; "Recv.Method" for methods
	lean   string            // Lean definition name
	params string            // Lean binder list
	ret    string            // Lean result type
	binds  map[string]string // Go expression text -> Lean expression
	drop   []string          // statements whose source text starts with one of these are dropped
	errRet bool              // the Go function returns `error`: nil -> true, anything else -> false
	finalVar string          // the function's effect is this local variable's final value (e.g. the cookie handed to http.SetCookie)
	cond   string            // instead of the body: translate the condition of the first if-statement whose source contains this text
}

var decSpecs = []decSpec{
	{file: "internal/http/request.go", fn: "IsNavigationRequest", lean: "isNavigationRequest",
		params: "(method : String) (hdr : String → String) (acceptsHtml : Bool)", ret: "Bool",
		binds: map[string]string{"r.Method": "method", "http.MethodGet": "\"GET\"", `r.Header.Get("Sec-Fetch-Mode")`: "(hdr \"Sec-Fetch-Mode\")",
			`r.Header.Get("Sec-Fetch-Dest")`: "(hdr \"Sec-Fetch-Dest\")", `Accepts(r, "text/html")`: "acceptsHtml"}},
	{file: "internal/http/request.go", fn: "HasSecFetchMetadata", lean: "hasSecFetchMetadata", params: "(hdr : String → String)", ret: "Bool",
		binds: map[string]string{`r.Header.Get("Sec-Fetch-Mode")`: "(hdr \"Sec-Fetch-Mode\")", `r.Header.Get("Sec-Fetch-Dest")`: "(hdr \"Sec-Fetch-Dest\")"}},
	{file: "pkg/openid/client/login.go", fn: "getAcrParam", lean: "getAcrParam",
		params: "(acrDefault : String) (level : String) (acrSupported : List String)", ret: "String",
		binds: map[string]string{"c.cfg.Client().ACRValues()": "acrDefault", "r.URL.Query().Get(QueryParamSecurityLevel)": "level",
			"c.cfg.Provider().ACRValuesSupported()": "acrSupported", "acr.IDPortenLegacyMapping": "Ww.Gen.Consts.idportenLegacyLookup"},
		drop: []string{"span", "mw.LogEntryFrom"}},
	{file: "pkg/openid/client/login.go", fn: "getLocaleParam", lean: "getLocaleParam",
		params: "(localeDefault : String) (locale : String) (localesSupported : List String)", ret: "String",
		binds: map[string]string{"c.cfg.Client().UILocales()": "localeDefault", "r.URL.Query().Get(QueryParamLocale)": "locale",
			"c.cfg.Provider().UILocalesSupported()": "localesSupported"},
		drop: []string{"span", "mw.LogEntryFrom"}},
	{file: "pkg/openid/client/login.go", fn: "getPromptParam", lean: "getPromptParam", params: "(prompt : String)", ret: "String",
		binds: map[string]string{"r.URL.Query().Get(QueryParamPrompt)": "prompt", "QueryParamPromptAllowedValues": "Ww.Gen.Consts.promptAllowedValues"},
		drop:  []string{"span", "mw.LogEntryFrom"}},
	{file: "pkg/openid/acr/acr.go", fn: "Validate", lean: "acrValidate", params: "(expected actual : String)", ret: "Bool", errRet: true,
		binds: map[string]string{"IDPortenLegacyMapping": "Ww.Gen.Consts.idportenLegacyLookup", "acceptedValuesMapping": "Ww.Gen.Consts.acrAcceptedLookup"}},
	{file: "pkg/handler/error.go", fn: "Standalone.respondError", lean: "retryCondition", params: "(ok : Bool) (attempts : Int) (statusCode : Int)", ret: "Bool",
		cond:  "MaxAutoRetryAttempts",
		binds: map[string]string{"MaxAutoRetryAttempts": "Ww.Gen.Consts.maxAutoRetryAttempts", "http.StatusTooManyRequests": "429"}},
	{file: "pkg/handler/error.go", fn: "incrementRetryAttempt", lean: "nextRetryValue", params: "(prev : Int) (ok : Bool)", ret: "Int",
		binds: map[string]string{},
		drop:  []string{"prev, ok := getRetryAttempts(r)", "c := cookie.Make", "cookie.Set"}},
	{file: "pkg/cookie/cookie.go", fn: "Make", lean: "cookieMake", params: "(name value oDomain oPath oSameSite : String) (oSecure : Bool)", ret: "GenCookie",
		binds: map[string]string{"opts.Domain": "oDomain", "opts.Path": "oPath", "opts.SameSite": "oSameSite", "opts.Secure": "oSecure", "&Cookie{cookie}": "cookie"}},
	{file: "pkg/cookie/cookie.go", fn: "Clear", lean: "cookieClear", params: "(name oDomain oPath oSameSite : String) (oSecure : Bool)", ret: "GenCookie", finalVar: "cookie",
		binds: map[string]string{"opts.Domain": "oDomain", "opts.Path": "oPath", "opts.SameSite": "oSameSite", "opts.Secure": "oSecure", "time.Unix(0, 0)": "\"epoch\""},
		drop:  []string{"http.SetCookie(w, cookie)"}},
	{file: "pkg/session/session.go", fn: "Session.canRefresh", lean: "sessionCanRefresh", params: "(hasData hasRefreshToken onCooldown : Bool)", ret: "Bool",
		binds: map[string]string{"in.data != nil": "hasData", "in.data.HasRefreshToken()": "hasRefreshToken", "in.data.Metadata.IsRefreshOnCooldown()": "onCooldown"}},
	{file: "pkg/session/session.go", fn: "Session.shouldRefresh", lean: "sessionShouldRefresh", params: "(hasData shouldRefresh : Bool)", ret: "Bool",
		binds: map[string]string{"in.data != nil": "hasData", "in.data.Metadata.ShouldRefresh()": "shouldRefresh"}},
	{file: "pkg/session/session.go", fn: "Session.AccessToken", lean: "sessionYieldsToken", params: "(hasData hasActiveAccessToken : Bool)", ret: "Bool", cond: "HasActiveAccessToken",
		binds: map[string]string{"in.data != nil": "hasData", "in.data.HasActiveAccessToken()": "hasActiveAccessToken"}},
	{file: "pkg/handler/autologin/autologin.go", fn: "AutoLogin.NeedsLogin", lean: "needsLogin",
		params: "(enabled : Bool) (patterns : List String) (urlPath : String) (isAuthenticated : Bool) (clean : String → String) (globMatch : String → String → Bool)", ret: "Bool",
		binds: map[string]string{"a.Enabled": "enabled", "a.IgnorePatterns": "patterns", "r.URL.Path": "urlPath", "pathlib.Clean(path)": "(clean path)"},
		drop:  []string{"if result, found := a.cache.Load(path)", "a.cache.Store"}},
}

type dtr struct {
	fset  *token.FileSet
	spec  *decSpec
	errs  []string
	final string // value of the function when control falls off the end (for the "value of a variable" style: none)
}

func (d *dtr) fail(n ast.Node, f string, a ...any) string {
	d.errs = append(d.errs, fmt.Sprintf("%s %s: %s", d.spec.fn, d.fset.Position(n.Pos()), fmt.Sprintf(f, a...)))
	return "unsupported"
}

func (d *dtr) bound(e ast.Node) (string, bool) {
	v, ok := d.spec.binds[src(d.fset, e)]
	return v, ok
}

func (d *dtr) expr(e ast.Expr) string {
	if v, ok := d.bound(e); ok {
		return v
	}
	switch x := e.(type) {
	case *ast.ParenExpr:
		return "(" + d.expr(x.X) + ")"
	case *ast.BasicLit:
		switch x.Kind {
		case token.STRING:
			s, err := strconv.Unquote(x.Value)
			if err != nil {
				return d.fail(x, "string literal")
			}
			return strconv.Quote(s)
		case token.INT:
			return x.Value
		}
	case *ast.Ident:
		switch x.Name {
		case "true", "false":
			return x.Name
		}
		return leanIdent(x.Name)
	case *ast.UnaryExpr:
		if x.Op == token.NOT {
			return "(!" + d.expr(x.X) + ")"
		}
		if x.Op == token.SUB {
			return "(-" + d.expr(x.X) + ")"
		}
		if x.Op == token.AND {
			if cl, ok := x.X.(*ast.CompositeLit); ok && src(d.fset, cl.Type) == "http.Cookie" {
				var fs []string
				for _, el := range cl.Elts {
					kv, ok := el.(*ast.KeyValueExpr)
					if !ok {
						return d.fail(el, "positional field in http.Cookie literal")
					}
					fn, ok := cookieFields[src(d.fset, kv.Key)]
					if !ok {
						return d.fail(el, "http.Cookie field %s is not modelled", src(d.fset, kv.Key))
					}
					fs = append(fs, fn+" := "+d.expr(kv.Value))
				}
				return "({ " + strings.Join(fs, ", ") + " } : GenCookie)"
			}
		}
	case *ast.BinaryExpr:
		// len(s) == 0 / len(s) > 0 on strings
		if c, ok := x.X.(*ast.CallExpr); ok {
			if id, ok := c.Fun.(*ast.Ident); ok && id.Name == "len" && len(c.Args) == 1 {
				if bl, ok := x.Y.(*ast.BasicLit); ok && bl.Value == "0" {
					a := d.expr(c.Args[0])
					switch x.Op {
					case token.EQL:
						return "(" + a + " == \"\")"
					case token.GTR, token.NEQ:
						return "(" + a + " != \"\")"
					}
				}
			}
		}
		l, r := d.expr(x.X), d.expr(x.Y)
		isStr := func(e ast.Expr) bool { bl, ok := e.(*ast.BasicLit); return ok && bl.Kind == token.STRING }
		if x.Op == token.ADD && (isStr(x.X) || isStr(x.Y)) {
			return "(" + l + " ++ " + r + ")"
		}
		switch x.Op {
		case token.LAND:
			return "(" + l + " && " + r + ")"
		case token.LOR:
			return "(" + l + " || " + r + ")"
		case token.EQL:
			return "(" + l + " == " + r + ")"
		case token.NEQ:
			return "(" + l + " != " + r + ")"
		case token.LSS:
			return "(decide (" + l + " < " + r + "))"
		case token.LEQ:
			return "(decide (" + l + " ≤ " + r + "))"
		case token.GTR:
			return "(decide (" + l + " > " + r + "))"
		case token.GEQ:
			return "(decide (" + l + " ≥ " + r + "))"
		case token.ADD:
			return "(" + l + " + " + r + ")"
		case token.SUB:
			return "(" + l + " - " + r + ")"
		}
	case *ast.CallExpr:
		f := src(d.fset, x.Fun)
		switch {
		case f == "strings.HasPrefix" && len(x.Args) == 2:
			return "(" + d.expr(x.Args[0]) + ".startsWith " + d.expr(x.Args[1]) + ")"
		case f == "strings.TrimSuffix" && len(x.Args) == 2:
			return "(Ww.Gen.Dec.trimSuffix " + d.expr(x.Args[0]) + " " + d.expr(x.Args[1]) + ")"
		case f == "slices.Contains" && len(x.Args) == 2:
			return "(" + d.expr(x.Args[0]) + ".contains " + d.expr(x.Args[1]) + ")"
		case strings.HasSuffix(f, ".Contains") && len(x.Args) == 1:
			return "(" + d.expr(x.Fun.(*ast.SelectorExpr).X) + ".contains " + d.expr(x.Args[0]) + ")"
		}
	}
	return d.fail(e, "expression %q outside the subset", src(d.fset, e))
}

var cookieFields = map[string]string{"HttpOnly": "httpOnly", "Name": "name", "Path": "path", "SameSite": "sameSite", "Secure": "secure", "Value": "value",
	"Expires": "expires", "MaxAge": "maxAge", "Domain": "domain"}

var leanKeywords = map[string]bool{"match": true, "end": true, "then": true, "fun": true, "let": true, "do": true, "at": true, "from": true, "show": true, "have": true,
	"with": true, "open": true, "in": true, "if": true, "else": true, "where": true, "instance": true, "structure": true, "def": true, "theorem": true}

func leanIdent(n string) string {
	if leanKeywords[n] {
		return n + "_"
	}
	return n
}

// lets translates an assignment / short variable declaration into `let` bindings (the text ends with a newline + indentation)
func (d *dtr) lets(s *ast.AssignStmt, ind string) (string, bool) {
	// v, ok := M[k]
	if len(s.Lhs) == 2 && len(s.Rhs) == 1 {
		if ix, ok := s.Rhs[0].(*ast.IndexExpr); ok {
			m := d.expr(ix.X)
			k := d.expr(ix.Index)
			v, okn := leanIdent(src(d.fset, s.Lhs[0])), leanIdent(src(d.fset, s.Lhs[1]))
			out := ""
			if v != "_" {
				out += fmt.Sprintf("let %s := (%s %s).getD default\n%s", v, m, k, ind)
			}
			if okn != "_" {
				out += fmt.Sprintf("let %s := (%s %s).isSome\n%s", okn, m, k, ind)
			}
			return out, true
		}
	}
	if len(s.Lhs) == 1 && len(s.Rhs) == 1 {
		if id, ok := s.Lhs[0].(*ast.Ident); ok {
			return fmt.Sprintf("let %s := %s\n%s", leanIdent(id.Name), d.expr(s.Rhs[0]), ind), true
		}
	}
	return "", false
}

func (d *dtr) dropped(st ast.Stmt) bool {
	s := src(d.fset, st)
	for _, p := range d.spec.drop {
		if strings.HasPrefix(s, p) {
			return true
		}
	}
	// constant declarations inside the body are inlined through the binding of their name
	return false
}

// returns reports whether every path through the statements ends in a return
func returns(stmts []ast.Stmt) bool {
	if len(stmts) == 0 {
		return false
	}
	switch s := stmts[len(stmts)-1].(type) {
	case *ast.ReturnStmt:
		return true
	case *ast.IfStmt:
		if s.Else == nil {
			return false
		}
		eb, ok := s.Else.(*ast.BlockStmt)
		return ok && returns(s.Body.List) && returns(eb.List)
	}
	return false
}

func (d *dtr) retVal(r *ast.ReturnStmt) string {
	if len(r.Results) != 1 {
		return d.fail(r, "return with %d results", len(r.Results))
	}
	if d.spec.errRet {
		if id, ok := r.Results[0].(*ast.Ident); ok && id.Name == "nil" {
			return "true"
		}
		if c, ok := r.Results[0].(*ast.CallExpr); ok && src(d.fset, c.Fun) == "fmt.Errorf" {
			return "false"
		}
		return d.fail(r, "error result %q", src(d.fset, r.Results[0]))
	}
	return d.expr(r.Results[0])
}

// assignedIn lists the variables (plain identifiers) assigned with `=` in the statements
func assignedIn(stmts []ast.Stmt) []string {
	var out []string
	for _, st := range stmts {
		if as, ok := st.(*ast.AssignStmt); ok && as.Tok == token.ASSIGN {
			for _, l := range as.Lhs {
				if id, ok := l.(*ast.Ident); ok {
					out = append(out, id.Name)
				}
			}
		}
	}
	return out
}

// block translates a statement list into a Lean expression; `rest` is what follows.
func (d *dtr) block(stmts []ast.Stmt, ind string) string {
	if len(stmts) == 0 {
		if d.final != "" {
			return d.final
		}
		return "unsupportedFallThrough"
	}
	st, rest := stmts[0], stmts[1:]
	if d.dropped(st) {
		return d.block(rest, ind)
	}
	switch s := st.(type) {
	case *ast.ReturnStmt:
		return d.retVal(s)
	case *ast.DeclStmt:
		// const defaultValue = "login"
		if gd, ok := s.Decl.(*ast.GenDecl); ok && (gd.Tok == token.CONST || gd.Tok == token.VAR) {
			out := ""
			for _, sp := range gd.Specs {
				vs := sp.(*ast.ValueSpec)
				for i, n := range vs.Names {
					if i < len(vs.Values) {
						out += fmt.Sprintf("let %s := %s\n%s", leanIdent(n.Name), d.expr(vs.Values[i]), ind)
					}
				}
			}
			return out + d.block(rest, ind)
		}
	case *ast.AssignStmt:
		if l, ok := d.lets(s, ind); ok {
			return l + d.block(rest, ind)
		}
	case *ast.IfStmt:
		pre := ""
		if s.Init != nil {
			// if v, ok := M[k]; ok { … }
			as, ok := s.Init.(*ast.AssignStmt)
			if !ok {
				return d.fail(s, "if-statement initialiser")
			}
			l, ok := d.lets(as, ind)
			if !ok {
				return d.fail(s, "if-statement initialiser")
			}
			pre = l
		}
		c := d.expr(s.Cond)
		if returns(s.Body.List) {
			thenE := d.block(s.Body.List, ind+"  ")
			var elseE string
			if s.Else != nil {
				eb, ok := s.Else.(*ast.BlockStmt)
				if !ok {
					return d.fail(s, "else-if chain")
				}
				if returns(eb.List) {
					elseE = d.block(eb.List, ind+"  ")
				} else {
					elseE = d.block(append(append([]ast.Stmt{}, eb.List...), rest...), ind+"  ")
				}
			} else {
				elseE = d.block(rest, ind+"  ")
			}
			return fmt.Sprintf("%sif %s then\n%s  %s\n%selse\n%s  %s", pre, c, ind, thenE, ind, ind, elseE)
		}
		// a branch that only re-assigns variables: x = e  becomes  let x := if c then e else x
		if s.Else == nil {
			// cookie.Domain = opts.Domain   becomes   let cookie := if c then { cookie with domain := oDomain } else cookie
			if len(s.Body.List) == 1 {
				if as, ok := s.Body.List[0].(*ast.AssignStmt); ok && as.Tok == token.ASSIGN && len(as.Lhs) == 1 && len(as.Rhs) == 1 {
					if sel, ok := as.Lhs[0].(*ast.SelectorExpr); ok {
						if id, ok := sel.X.(*ast.Ident); ok {
							if fn, ok := cookieFields[sel.Sel.Name]; ok {
								v := leanIdent(id.Name)
								return pre + fmt.Sprintf("let %s := if %s then { %s with %s := %s } else %s\n%s", v, c, v, fn, d.expr(as.Rhs[0]), v, ind) + d.block(rest, ind)
							}
						}
					}
				}
			}
			vars := assignedIn(s.Body.List)
			if len(vars) == len(s.Body.List) && len(vars) > 0 {
				out := pre
				for i, v := range vars {
					as := s.Body.List[i].(*ast.AssignStmt)
					out += fmt.Sprintf("let %s := if %s then %s else %s\n%s", leanIdent(v), c, d.expr(as.Rhs[0]), leanIdent(v), ind)
				}
				return out + d.block(rest, ind)
			}
		}
		return d.fail(s, "if-statement shape")
	case *ast.RangeStmt:
		// for _, x := range L { if cond(x) { return e } }   ==>   if L.any (fun x => cond x) then e else rest
		if len(s.Body.List) >= 1 {
			var body []ast.Stmt
			for _, b := range s.Body.List {
				if !d.dropped(b) {
					body = append(body, b)
				}
			}
			// optional leading:  match, _ := doublestar.Match(pattern, path)
			x := leanIdent(src(d.fset, s.Value))
			lets := ""
			if len(body) == 2 {
				if as, ok := body[0].(*ast.AssignStmt); ok && len(as.Rhs) == 1 {
					if c, ok := as.Rhs[0].(*ast.CallExpr); ok && src(d.fset, c.Fun) == "doublestar.Match" && len(c.Args) == 2 {
						lets = fmt.Sprintf("let %s := globMatch %s %s; ", leanIdent(src(d.fset, as.Lhs[0])), d.expr(c.Args[0]), d.expr(c.Args[1]))
						body = body[1:]
					}
				}
			}
			if len(body) == 1 {
				if is, ok := body[0].(*ast.IfStmt); ok && is.Else == nil && is.Init == nil {
					var inner []ast.Stmt
					for _, b := range is.Body.List {
						if !d.dropped(b) {
							inner = append(inner, b)
						}
					}
					if len(inner) == 1 {
						if r, ok := inner[0].(*ast.ReturnStmt); ok {
							return fmt.Sprintf("if (%s).any (fun %s => %s%s) then\n%s  %s\n%selse\n%s  %s", d.expr(s.X), x, lets, d.expr(is.Cond), ind, d.retVal(r), ind, ind, d.block(rest, ind+"  "))
						}
					}
				}
			}
		}
		return d.fail(s, "loop shape")
	case *ast.ExprStmt:
		return d.fail(s, "statement %q is neither translated nor listed as dropped", strings.SplitN(src(d.fset, s), "\n", 2)[0])
	}
	return d.fail(st, "statement %q outside the subset", strings.SplitN(src(d.fset, st), "\n", 2)[0])
}

func findFunc(f *ast.File, name string) *ast.FuncDecl {
	recv, fn := "", name
	if i := strings.Index(name, "."); i >= 0 {
		recv, fn = name[:i], name[i+1:]
	}
	for _, dcl := range f.Decls {
		fd, ok := dcl.(*ast.FuncDecl)
		if !ok || fd.Name.Name != fn || fd.Body == nil {
			continue
		}
		r := ""
		if fd.Recv != nil && len(fd.Recv.List) == 1 {
			t := fd.Recv.List[0].Type
			if st, ok := t.(*ast.StarExpr); ok {
				t = st.X
			}
			if id, ok := t.(*ast.Ident); ok {
				r = id.Name
			}
		}
		if r == recv {
			return fd
		}
	}
	return nil
}

// mapLookups: string->string and string->[]string map literals of pkg/openid/acr as Lean lookup functions (constants resolved)
func genAcrMaps(fset *token.FileSet, b *strings.Builder) {
	f := parseFile(fset, "pkg/openid/acr/acr.go")
	if f == nil {
		return
	}
	consts := map[string]string{}
	for _, dcl := range f.Decls {
		gd, ok := dcl.(*ast.GenDecl)
		if !ok || gd.Tok != token.CONST {
			continue
		}
		for _, sp := range gd.Specs {
			vs := sp.(*ast.ValueSpec)
			for i, n := range vs.Names {
				if i < len(vs.Values) {
					if bl, ok := vs.Values[i].(*ast.BasicLit); ok && bl.Kind == token.STRING {
						consts[n.Name] = bl.Value
					}
				}
			}
		}
	}
	val := func(e ast.Expr) string {
		if bl, ok := e.(*ast.BasicLit); ok && bl.Kind == token.STRING {
			return bl.Value
		}
		if id, ok := e.(*ast.Ident); ok {
			if v, ok := consts[id.Name]; ok {
				return v
			}
		}
		probs.add("Dec", "acr map entry "+src(fset, e)+" is not a string constant")
		return "\"?\""
	}
	for _, w := range [][2]string{{"IDPortenLegacyMapping", "idportenLegacyLookup"}, {"acceptedValuesMapping", "acrAcceptedLookup"}} {
		found := false
		for _, dcl := range f.Decls {
			gd, ok := dcl.(*ast.GenDecl)
			if !ok || gd.Tok != token.VAR {
				continue
			}
			for _, sp := range gd.Specs {
				vs := sp.(*ast.ValueSpec)
				if len(vs.Names) != 1 || vs.Names[0].Name != w[0] || len(vs.Values) != 1 {
					continue
				}
				cl, ok := vs.Values[0].(*ast.CompositeLit)
				if !ok {
					continue
				}
				found = true
				isList := strings.Contains(src(fset, cl.Type), "[]string")
				ty := "String"
				if isList {
					ty = "List String"
				}
				fmt.Fprintf(b, "def %s (k : String) : Option (%s) :=\n", w[1], ty)
				for _, el := range cl.Elts {
					kv := el.(*ast.KeyValueExpr)
					v := ""
					if isList {
						var xs []string
						for _, e := range kv.Value.(*ast.CompositeLit).Elts {
							xs = append(xs, val(e))
						}
						v = "[" + strings.Join(xs, ", ") + "]"
					} else {
						v = val(kv.Value)
					}
					fmt.Fprintf(b, "  if k == %s then some %s else\n", val(kv.Key), v)
				}
				b.WriteString("  none\n\n")
			}
		}
		if !found {
			probs.add("Dec", "map "+w[0]+" not found in pkg/openid/acr/acr.go")
		}
	}
}

func genDec() {
	fset := token.NewFileSet()
	var b strings.Builder
	b.WriteString("import Ww.Gen.Consts\n")
	b.WriteString(header)
	b.WriteString("-- Decision functions of the request path, translated from the Go source (see extract/translate2.go for the binding tables).\n")
	b.WriteString("namespace Ww.Gen.Consts\n\n")
	genAcrMaps(fset, &b)
	// prompt allow-list
	if lf := parseFile(fset, "pkg/openid/client/login.go"); lf != nil {
		found := false
		ast.Inspect(lf, func(n ast.Node) bool {
			vs, ok := n.(*ast.ValueSpec)
			if ok && len(vs.Names) == 1 && vs.Names[0].Name == "QueryParamPromptAllowedValues" && len(vs.Values) == 1 {
				if cl, ok := vs.Values[0].(*ast.CompositeLit); ok {
					var xs []string
					for _, e := range cl.Elts {
						xs = append(xs, src(fset, e))
					}
					fmt.Fprintf(&b, "def promptAllowedValues : List String := [%s]\n\n", strings.Join(xs, ", "))
					found = true
				}
			}
			return true
		})
		if !found {
			probs.add("Dec", "QueryParamPromptAllowedValues not found")
		}
	}
	b.WriteString("end Ww.Gen.Consts\n\nnamespace Ww.Gen.Dec\n\n")
	b.WriteString("/-- the fields of net/http.Cookie that pkg/cookie sets (zero values as in Go) -/\nstructure GenCookie where\n  name : String := \"\"\n  value : String := \"\"\n  domain : String := \"\"\n  path : String := \"\"\n" +
		"  sameSite : String := \"\"\n  secure : Bool := false\n  httpOnly : Bool := false\n  maxAge : Int := 0\n  expires : String := \"\"\n  deriving Repr, DecidableEq\n\n")
	b.WriteString("/-- strings.TrimSuffix -/\ndef trimSuffix (s suf : String) : String := if s.endsWith suf then (s.dropEnd suf.length).toString else s\n\n")
	for i := range decSpecs {
		sp := &decSpecs[i]
		f := parseFile(fset, sp.file)
		if f == nil {
			continue
		}
		fd := findFunc(f, sp.fn)
		if fd == nil {
			probs.add("Dec/"+sp.lean, "function "+sp.fn+" not found in "+sp.file)
			continue
		}
		d := &dtr{fset: fset, spec: sp}
		body := ""
		if sp.cond != "" {
			var found *ast.IfStmt
			ast.Inspect(fd.Body, func(n ast.Node) bool {
				if is, ok := n.(*ast.IfStmt); ok && found == nil && strings.Contains(src(fset, is.Cond), sp.cond) {
					found = is
				}
				return true
			})
			if found == nil {
				probs.add("Dec/"+sp.lean, "no condition mentioning "+sp.cond+" in "+sp.fn)
				continue
			}
			body = d.expr(found.Cond)
		} else {
			if sp.lean == "nextRetryValue" {
				d.final = "val"
			}
			if sp.finalVar != "" {
				d.final = sp.finalVar
			}
			body = d.block(fd.Body.List, "  ")
		}
		for _, e := range d.errs {
			probs.add("Dec/"+sp.lean, e)
		}
		if len(d.errs) > 0 {
			// not translated: the definition is left out, so exactly the tie theorems that mention it stop checking
			fmt.Fprintf(&b, "-- %s:%s could not be translated (see EXTRACT-PROBLEM Dec/%s)\n\n", sp.file, sp.fn, sp.lean)
			continue
		}
		fmt.Fprintf(&b, "/-- %s:%s -/\ndef %s %s : %s :=\n  %s\n\n", sp.file, sp.fn, sp.lean, sp.params, sp.ret, body)
	}
	b.WriteString("end Ww.Gen.Dec\n")
	writeGen("Dec.lean", b.String())
}
