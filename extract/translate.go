package main

// Translator for a deliberately tiny subset of Go (pkg/session/data.go) into Lean 4 definitions.
//
//   time.Time, time.Duration, int64  ->  Int  (nanoseconds; Go's zero time is 0)
//   bool -> Bool, string -> String, error -> List String (the %w sentinels; [] = nil)
//   time.Now() -> the explicit parameter `now`  (hypothesis H-CLOCK: one clock reading per evaluation)
//   Go's truncating `/` -> Int.tdiv
//
// Anything outside the subset is an extraction error (tie broken (G)); nothing is guessed.

import (
	"fmt"
	"go/ast"
	"go/token"
	"sort"
	"strconv"
	"strings"
)

type tfunc struct {
	name string // Lean name, e.g. Metadata.IsEnded
	text string
	deps map[string]bool
}

type translator struct {
	fset    *token.FileSet
	structs map[string]*ast.StructType // translatable struct types
	order   []string                   // struct declaration order
	methods map[string]string          // "Metadata.IsEnded" -> receiver type name ("" for plain funcs)
	want    map[string]bool            // functions to translate (Lean names)
	errs    []string
	cur     *tfunc
	recv    string            // receiver identifier of the current function
	recvTy  string            // receiver type
	locals  map[string]string // local variable -> struct type name ("" if scalar)
	retTy   string
}

var timeUnits = map[string]string{
	"Nanosecond": "1", "Microsecond": "1000", "Millisecond": "1000000",
	"Second": "1000000000", "Minute": "60000000000", "Hour": "3600000000000",
}

func (t *translator) fail(n ast.Node, format string, a ...any) string {
	msg := fmt.Sprintf("%s: %s", t.fset.Position(n.Pos()), fmt.Sprintf(format, a...))
	t.errs = append(t.errs, msg)
	return "sorryUnsupported"
}

func leanType(e ast.Expr, structs map[string]*ast.StructType) (string, bool) {
	switch x := e.(type) {
	case *ast.Ident:
		switch x.Name {
		case "int64", "int":
			return "Int", true
		case "bool":
			return "Bool", true
		case "string":
			return "String", true
		case "error":
			return "List String", true
		}
		if _, ok := structs[x.Name]; ok {
			return x.Name, true
		}
	case *ast.SelectorExpr:
		if p, ok := x.X.(*ast.Ident); ok && p.Name == "time" && (x.Sel.Name == "Time" || x.Sel.Name == "Duration") {
			return "Int", true
		}
	case *ast.StarExpr:
		return leanType(x.X, structs)
	}
	return "", false
}

// collectStructs keeps the struct types all of whose fields are translatable (fixpoint).
func (t *translator) collectStructs(f *ast.File) {
	cands := map[string]*ast.StructType{}
	var order []string
	for _, d := range f.Decls {
		gd, ok := d.(*ast.GenDecl)
		if !ok || gd.Tok != token.TYPE {
			continue
		}
		for _, s := range gd.Specs {
			ts := s.(*ast.TypeSpec)
			if st, ok := ts.Type.(*ast.StructType); ok {
				cands[ts.Name.Name] = st
				order = append(order, ts.Name.Name)
			}
		}
	}
	for changed := true; changed; {
		changed = false
		for n, st := range cands {
			for _, fl := range st.Fields.List {
				if _, ok := leanType(fl.Type, cands); !ok {
					delete(cands, n)
					changed = true
					break
				}
			}
		}
	}
	t.structs = cands
	// dependency order: a struct after the structs it mentions
	done := map[string]bool{}
	var visit func(n string)
	visit = func(n string) {
		if done[n] {
			return
		}
		done[n] = true
		for _, fl := range cands[n].Fields.List {
			if ty, _ := leanType(fl.Type, cands); cands[ty] != nil {
				visit(ty)
			}
		}
		t.order = append(t.order, n)
	}
	for _, n := range order {
		if cands[n] != nil {
			visit(n)
		}
	}
}

func (t *translator) structDecls() string {
	var b strings.Builder
	for _, n := range t.order {
		fmt.Fprintf(&b, "structure %s where\n", n)
		for _, fl := range t.structs[n].Fields.List {
			ty, _ := leanType(fl.Type, t.structs)
			def := "0"
			switch ty {
			case "Bool":
				def = "false"
			case "String":
				def = "\"\""
			case "Int":
			default:
				def = "{}"
			}
			names := []string{}
			for _, id := range fl.Names {
				names = append(names, id.Name)
			}
			if len(names) == 0 { // embedded
				names = []string{ty}
			}
			for _, fn := range names {
				fmt.Fprintf(&b, "  %s : %s := %s\n", fn, ty, def)
			}
		}
		b.WriteString("  deriving Repr, DecidableEq\n\n")
	}
	return b.String()
}

func funcLeanName(fd *ast.FuncDecl) (name, recvIdent, recvTy string) {
	if fd.Recv != nil && len(fd.Recv.List) == 1 {
		ty := fd.Recv.List[0].Type
		if s, ok := ty.(*ast.StarExpr); ok {
			ty = s.X
		}
		if id, ok := ty.(*ast.Ident); ok {
			recvTy = id.Name
		}
		if len(fd.Recv.List[0].Names) == 1 {
			recvIdent = fd.Recv.List[0].Names[0].Name
		}
		return recvTy + "." + fd.Name.Name, recvIdent, recvTy
	}
	return fd.Name.Name, "", ""
}

// ---- expressions --------------------------------------------------------------------------------

func (t *translator) dep(n string) { t.cur.deps[n] = true }

func (t *translator) ident(n string) string {
	if n == t.recv && t.recv != "" {
		return "self"
	}
	return n
}

// typeOfExpr returns the struct type of an expression when it is statically evident, else "".
func (t *translator) structTypeOf(e ast.Expr) string {
	switch x := e.(type) {
	case *ast.Ident:
		if x.Name == t.recv {
			return t.recvTy
		}
		return t.locals[x.Name]
	case *ast.SelectorExpr:
		base := t.structTypeOf(x.X)
		if st := t.structs[base]; st != nil {
			for _, fl := range st.Fields.List {
				ty, _ := leanType(fl.Type, t.structs)
				if len(fl.Names) == 0 && ty == x.Sel.Name {
					return ty
				}
				for _, id := range fl.Names {
					if id.Name == x.Sel.Name {
						if t.structs[ty] != nil {
							return ty
						}
						return ""
					}
				}
			}
		}
	case *ast.CompositeLit:
		ty, _ := leanType(x.Type, t.structs)
		return ty
	case *ast.UnaryExpr:
		if x.Op == token.AND {
			return t.structTypeOf(x.X)
		}
	case *ast.StarExpr:
		return t.structTypeOf(x.X)
	case *ast.ParenExpr:
		return t.structTypeOf(x.X)
	}
	return ""
}

func (t *translator) expr(e ast.Expr) string {
	switch x := e.(type) {
	case *ast.ParenExpr:
		return "(" + t.expr(x.X) + ")"
	case *ast.BasicLit:
		switch x.Kind {
		case token.INT:
			return x.Value
		case token.STRING:
			s, err := strconv.Unquote(x.Value)
			if err != nil {
				return t.fail(x, "string literal")
			}
			return strconv.Quote(s)
		}
		return t.fail(x, "literal kind %v", x.Kind)
	case *ast.Ident:
		switch x.Name {
		case "true", "false":
			return x.Name
		case "nil":
			if t.retTy == "List String" {
				return "([] : List String)"
			}
			return t.fail(x, "nil outside error context")
		}
		if _, isLocal := t.locals[x.Name]; !isLocal && x.Name != t.recv {
			t.dep(x.Name) // package-level constant
		}
		return t.ident(x.Name)
	case *ast.SelectorExpr:
		if p, ok := x.X.(*ast.Ident); ok && p.Name == "time" {
			if v, ok := timeUnits[x.Sel.Name]; ok {
				return v
			}
			return t.fail(x, "time.%s", x.Sel.Name)
		}
		return t.expr(x.X) + "." + x.Sel.Name
	case *ast.StarExpr:
		return t.expr(x.X)
	case *ast.UnaryExpr:
		switch x.Op {
		case token.NOT:
			return "(!" + t.expr(x.X) + ")"
		case token.SUB:
			return "(-" + t.expr(x.X) + ")"
		case token.AND:
			return t.expr(x.X)
		}
		return t.fail(x, "unary %v", x.Op)
	case *ast.BinaryExpr:
		a, b := t.expr(x.X), t.expr(x.Y)
		switch x.Op {
		case token.ADD, token.SUB, token.MUL:
			return fmt.Sprintf("(%s %s %s)", a, x.Op, b)
		case token.QUO:
			return fmt.Sprintf("(Int.tdiv %s %s)", a, b)
		case token.LSS, token.GTR, token.LEQ, token.GEQ:
			op := map[token.Token]string{token.LSS: "<", token.GTR: ">", token.LEQ: "≤", token.GEQ: "≥"}[x.Op]
			return fmt.Sprintf("decide (%s %s %s)", a, op, b)
		case token.EQL:
			return fmt.Sprintf("decide (%s = %s)", a, b)
		case token.NEQ:
			return fmt.Sprintf("decide (%s ≠ %s)", a, b)
		case token.LAND:
			return fmt.Sprintf("(%s && %s)", a, b)
		case token.LOR:
			return fmt.Sprintf("(%s || %s)", a, b)
		}
		return t.fail(x, "binary %v", x.Op)
	case *ast.CompositeLit:
		ty, ok := leanType(x.Type, t.structs)
		if !ok || t.structs[ty] == nil {
			return t.fail(x, "composite literal of untranslated type")
		}
		var fs []string
		for _, el := range x.Elts {
			kv, ok := el.(*ast.KeyValueExpr)
			if !ok {
				return t.fail(el, "positional composite literal")
			}
			fs = append(fs, fmt.Sprintf("%s := %s", kv.Key.(*ast.Ident).Name, t.expr(kv.Value)))
		}
		return fmt.Sprintf("({ %s } : %s)", strings.Join(fs, ", "), ty)
	case *ast.CallExpr:
		return t.call(x)
	}
	return t.fail(e, "expression %T", e)
}

func (t *translator) call(c *ast.CallExpr) string {
	switch f := c.Fun.(type) {
	case *ast.Ident:
		switch f.Name {
		case "int64", "int":
			if len(c.Args) == 1 {
				// int64(d.Seconds()) : float64 seconds truncated toward zero
				if in, ok := c.Args[0].(*ast.CallExpr); ok {
					if sel, ok := in.Fun.(*ast.SelectorExpr); ok && sel.Sel.Name == "Seconds" && len(in.Args) == 0 {
						return fmt.Sprintf("(Int.tdiv %s 1000000000)", t.expr(sel.X))
					}
				}
				return t.expr(c.Args[0])
			}
		case "len":
			if len(c.Args) == 1 {
				return fmt.Sprintf("(%s.length : Int)", t.expr(c.Args[0]))
			}
		}
		if t.want[f.Name] {
			t.dep(f.Name)
			args := []string{}
			for _, a := range c.Args {
				args = append(args, t.expr(a))
			}
			args = append(args, "now")
			return fmt.Sprintf("(%s %s)", f.Name, strings.Join(args, " "))
		}
		return t.fail(c, "call of %s", f.Name)
	case *ast.SelectorExpr:
		if p, ok := f.X.(*ast.Ident); ok {
			switch p.Name + "." + f.Sel.Name {
			case "time.Now":
				return "now"
			case "time.Duration":
				if len(c.Args) == 1 {
					return t.expr(c.Args[0])
				}
			case "fmt.Errorf":
				var sent []string
				for _, a := range c.Args[1:] {
					id, ok := a.(*ast.Ident)
					if !ok {
						return t.fail(a, "fmt.Errorf operand is not a sentinel identifier")
					}
					sent = append(sent, strconv.Quote(id.Name))
				}
				return "[" + strings.Join(sent, ", ") + "]"
			}
		}
		recvTy := t.structTypeOf(f.X)
		if recvTy != "" {
			ln := recvTy + "." + f.Sel.Name
			if t.want[ln] {
				t.dep(ln)
				args := []string{t.expr(f.X)}
				for _, a := range c.Args {
					args = append(args, t.expr(a))
				}
				args = append(args, "now")
				return fmt.Sprintf("(%s %s)", ln, strings.Join(args, " "))
			}
			return t.fail(c, "call of untranslated method %s", ln)
		}
		// methods of time.Time / time.Duration on scalar expressions
		x := t.expr(f.X)
		arg := func() string {
			if len(c.Args) != 1 {
				return t.fail(c, "arity of %s", f.Sel.Name)
			}
			return t.expr(c.Args[0])
		}
		switch f.Sel.Name {
		case "After":
			return fmt.Sprintf("decide (%s > %s)", x, arg())
		case "Before":
			return fmt.Sprintf("decide (%s < %s)", x, arg())
		case "Equal":
			return fmt.Sprintf("decide (%s = %s)", x, arg())
		case "Add":
			return fmt.Sprintf("(%s + %s)", x, arg())
		case "Sub":
			return fmt.Sprintf("(%s - %s)", x, arg())
		case "IsZero":
			return fmt.Sprintf("decide (%s = 0)", x)
		}
		return t.fail(c, "method %s", f.Sel.Name)
	}
	return t.fail(c, "call")
}

// ---- statements ---------------------------------------------------------------------------------

func terminates(stmts []ast.Stmt) bool {
	if len(stmts) == 0 {
		return false
	}
	switch s := stmts[len(stmts)-1].(type) {
	case *ast.ReturnStmt:
		return true
	case *ast.IfStmt:
		if s.Else == nil {
			return false
		}
		eb, ok := s.Else.(*ast.BlockStmt)
		return ok && terminates(s.Body.List) && terminates(eb.List)
	}
	return false
}

func containsReturn(stmts []ast.Stmt) bool {
	found := false
	for _, s := range stmts {
		ast.Inspect(s, func(n ast.Node) bool {
			if _, ok := n.(*ast.ReturnStmt); ok {
				found = true
			}
			return true
		})
	}
	return found
}

// assignedOuter lists variables assigned (with =) in stmts, i.e. outer variables a fall-through branch may change.
func (t *translator) assignedOuter(stmts []ast.Stmt) []string {
	set := map[string]bool{}
	declared := map[string]bool{}
	var walk func(ss []ast.Stmt)
	walk = func(ss []ast.Stmt) {
		for _, s := range ss {
			switch x := s.(type) {
			case *ast.AssignStmt:
				for _, l := range x.Lhs {
					root := l
					for {
						if se, ok := root.(*ast.SelectorExpr); ok {
							root = se.X
							continue
						}
						break
					}
					if id, ok := root.(*ast.Ident); ok {
						if x.Tok == token.DEFINE {
							declared[id.Name] = true
						} else if !declared[id.Name] {
							set[t.ident(id.Name)] = true
						}
					}
				}
			case *ast.IfStmt:
				walk(x.Body.List)
				if eb, ok := x.Else.(*ast.BlockStmt); ok {
					walk(eb.List)
				}
			}
		}
	}
	walk(stmts)
	var out []string
	for k := range set {
		out = append(out, k)
	}
	sort.Strings(out)
	return out
}

func tuple(vs []string) string {
	if len(vs) == 1 {
		return vs[0]
	}
	return "(" + strings.Join(vs, ", ") + ")"
}

// block translates stmts followed by continuation k (a Lean expression) into a Lean expression.
func (t *translator) block(stmts []ast.Stmt, k string, ind string) string {
	if len(stmts) == 0 {
		return k
	}
	s, rest := stmts[0], stmts[1:]
	switch x := s.(type) {
	case *ast.ReturnStmt:
		if len(x.Results) == 0 {
			return "self"
		}
		if len(x.Results) != 1 {
			return t.fail(x, "multi-value return")
		}
		return t.expr(x.Results[0])
	case *ast.AssignStmt:
		if len(x.Lhs) != 1 || len(x.Rhs) != 1 {
			return t.fail(x, "parallel assignment")
		}
		rhs := t.expr(x.Rhs[0])
		switch l := x.Lhs[0].(type) {
		case *ast.Ident:
			if x.Tok == token.DEFINE {
				t.locals[l.Name] = t.structTypeOf(x.Rhs[0])
			}
			return fmt.Sprintf("let %s := %s\n%s%s", t.ident(l.Name), rhs, ind, t.block(rest, k, ind))
		case *ast.SelectorExpr:
			if x.Tok != token.ASSIGN {
				return t.fail(x, "define on selector")
			}
			// a.b.c = v  ==>  let a := { a with b := { a.b with c := v } }
			var chain []string
			var root ast.Expr = l
			for {
				se, ok := root.(*ast.SelectorExpr)
				if !ok {
					break
				}
				chain = append([]string{se.Sel.Name}, chain...)
				root = se.X
			}
			id, ok := root.(*ast.Ident)
			if !ok {
				return t.fail(x, "assignment target")
			}
			base := t.ident(id.Name)
			val := rhs
			for i := len(chain) - 1; i >= 0; i-- {
				prefix := base
				if i > 0 {
					prefix = base + "." + strings.Join(chain[:i], ".")
				}
				val = fmt.Sprintf("{ %s with %s := %s }", prefix, chain[i], val)
			}
			return fmt.Sprintf("let %s := %s\n%s%s", base, val, ind, t.block(rest, k, ind))
		}
		return t.fail(x, "assignment target")
	case *ast.IfStmt:
		if x.Init != nil {
			return t.fail(x, "if with init")
		}
		cond := t.expr(x.Cond)
		var elseStmts []ast.Stmt
		if x.Else != nil {
			eb, ok := x.Else.(*ast.BlockStmt)
			if !ok {
				return t.fail(x, "else-if")
			}
			elseStmts = eb.List
		}
		in2 := ind + "  "
		if terminates(x.Body.List) && x.Else == nil {
			saved := t.copyLocals()
			a := t.block(x.Body.List, "", in2)
			t.locals = saved
			return fmt.Sprintf("if %s then\n%s%s\n%selse\n%s%s", cond, in2, a, ind, in2, t.block(rest, k, in2))
		}
		if x.Else != nil && terminates(x.Body.List) && terminates(elseStmts) {
			saved := t.copyLocals()
			a := t.block(x.Body.List, "", in2)
			t.locals = t.copyOf(saved)
			b := t.block(elseStmts, "", in2)
			t.locals = saved
			return fmt.Sprintf("if %s then\n%s%s\n%selse\n%s%s", cond, in2, a, ind, in2, b)
		}
		if containsReturn(x.Body.List) || containsReturn(elseStmts) {
			return t.fail(x, "branch that both returns and falls through")
		}
		vs := t.assignedOuter(append(append([]ast.Stmt{}, x.Body.List...), elseStmts...))
		if len(vs) == 0 {
			return t.fail(x, "if without effect")
		}
		saved := t.copyLocals()
		a := t.block(x.Body.List, tuple(vs), in2)
		t.locals = t.copyOf(saved)
		b := t.block(elseStmts, tuple(vs), in2)
		t.locals = saved
		return fmt.Sprintf("let %s := if %s then\n%s%s\n%selse\n%s%s\n%s%s", tuple(vs), cond, in2, a, ind, in2, b, ind, t.block(rest, k, ind))
	case *ast.DeclStmt:
		return t.fail(x, "var declaration")
	}
	return t.fail(s, "statement %T", s)
}

func (t *translator) copyLocals() map[string]string { return t.copyOf(t.locals) }
func (t *translator) copyOf(m map[string]string) map[string]string {
	c := map[string]string{}
	for k, v := range m {
		c[k] = v
	}
	return c
}

func (t *translator) function(fd *ast.FuncDecl) *tfunc {
	name, recvIdent, recvTy := funcLeanName(fd)
	t.cur = &tfunc{name: name, deps: map[string]bool{}}
	t.recv, t.recvTy = recvIdent, recvTy
	t.locals = map[string]string{}
	var params []string
	if recvTy != "" {
		if t.structs[recvTy] == nil {
			t.fail(fd, "receiver type %s not translatable", recvTy)
		}
		params = append(params, fmt.Sprintf("(self : %s)", recvTy))
	}
	for _, p := range fd.Type.Params.List {
		ty, ok := leanType(p.Type, t.structs)
		if !ok {
			t.fail(p, "parameter type")
		}
		for _, id := range p.Names {
			params = append(params, fmt.Sprintf("(%s : %s)", id.Name, ty))
			st := ""
			if t.structs[ty] != nil {
				st = ty
			}
			t.locals[id.Name] = st
		}
	}
	params = append(params, "(now : Int)")
	k := ""
	switch {
	case fd.Type.Results == nil || len(fd.Type.Results.List) == 0:
		if recvTy == "" {
			t.fail(fd, "procedure without receiver")
		}
		t.retTy = recvTy
		k = "self"
	case len(fd.Type.Results.List) == 1:
		ty, ok := leanType(fd.Type.Results.List[0].Type, t.structs)
		if !ok {
			t.fail(fd, "result type")
		}
		t.retTy = ty
	default:
		t.fail(fd, "multiple results")
	}
	body := t.block(fd.Body.List, k, "  ")
	if k == "" && !terminates(fd.Body.List) {
		t.fail(fd, "function may fall off its end")
	}
	t.cur.text = fmt.Sprintf("def %s %s : %s :=\n  %s\n", name, strings.Join(params, " "), t.retTy, body)
	delete(t.cur.deps, name)
	return t.cur
}
