module verif/extract

go 1.24.2
