package main

// Gen/Facts.lean: small structural facts used by decide-style theorems (C16: what an SSO proxy can reach; C09: crypter shape; …)

import (
	"fmt"
	"go/ast"
	"go/token"
	"sort"
	"strconv"
	"strings"
)

func init() { tableGens = append(tableGens, genFacts) }

type structWant struct{ file, typ, lean string }
type funcWant struct{ file, recv, lean string } // recv "" = all plain functions; lean name prefix

func callsIn(fset *token.FileSet, body *ast.BlockStmt) []string {
	set := map[string]bool{}
	ast.Inspect(body, func(n ast.Node) bool {
		if c, ok := n.(*ast.CallExpr); ok {
			switch f := c.Fun.(type) {
			case *ast.SelectorExpr:
				set[src(fset, f)] = true
			case *ast.Ident:
				set[f.Name] = true
			}
		}
		return true
	})
	var out []string
	for k := range set {
		out = append(out, k)
	}
	sort.Strings(out)
	return out
}

func qs(ss []string) string {
	var o []string
	for _, s := range ss {
		o = append(o, strconv.Quote(s))
	}
	return "[" + strings.Join(o, ", ") + "]"
}

func genFacts() {
	fset := token.NewFileSet()
	var b strings.Builder
	b.WriteString(header)
	b.WriteString("namespace Ww.Gen.Facts\n\n")
	for _, w := range []structWant{{"pkg/handler/handler_sso_proxy.go", "SSOProxy", "ssoProxyFields"}, {"pkg/handler/handler.go", "Standalone", "standaloneFields"}} {
		f := parseFile(fset, w.file)
		if f == nil {
			continue
		}
		found := false
		for _, d := range f.Decls {
			gd, ok := d.(*ast.GenDecl)
			if !ok || gd.Tok != token.TYPE {
				continue
			}
			for _, s := range gd.Specs {
				ts := s.(*ast.TypeSpec)
				st, ok := ts.Type.(*ast.StructType)
				if !ok || ts.Name.Name != w.typ {
					continue
				}
				found = true
				var pairs []string
				for _, fl := range st.Fields.List {
					ty := src(fset, fl.Type)
					if len(fl.Names) == 0 {
						pairs = append(pairs, fmt.Sprintf("(%s, %s)", strconv.Quote(""), strconv.Quote(ty)))
					}
					for _, n := range fl.Names {
						pairs = append(pairs, fmt.Sprintf("(%s, %s)", strconv.Quote(n.Name), strconv.Quote(ty)))
					}
				}
				fmt.Fprintf(&b, "def %s : List (String × String) := [%s]\n\n", w.lean, strings.Join(pairs, ", "))
			}
		}
		if !found {
			probs.add("Facts", "struct "+w.typ+" not found in "+w.file)
		}
	}
	// per function / method: the set of call expressions in its body
	for _, w := range []funcWant{{"pkg/handler/handler_sso_proxy.go", "*", "ssoProxyCalls"}, {"pkg/handler/handler_sso_server.go", "*", "ssoServerCalls"},
		{"internal/crypto/crypter.go", "*", "crypterCalls"}, {"pkg/session/session_reader.go", "*", "readerCalls"}, {"pkg/server/server.go", "*", "serverCalls"},
		{"pkg/session/store_memory.go", "*", "memoryStoreCalls"}, {"pkg/session/store_redis.go", "*", "redisStoreCalls"}} {
		f := parseFile(fset, w.file)
		if f == nil {
			continue
		}
		var rows []string
		for _, d := range f.Decls {
			fd, ok := d.(*ast.FuncDecl)
			if !ok || fd.Body == nil {
				continue
			}
			name, _, _ := funcLeanName(fd)
			rows = append(rows, fmt.Sprintf("  (%s, %s)", strconv.Quote(name), qs(callsIn(fset, fd.Body))))
		}
		fmt.Fprintf(&b, "def %s : List (String × List String) := [\n%s\n]\n\n", w.lean, strings.Join(rows, ",\n"))
	}
	// pkg/server/server.go: the expression handed to Shutdown as its timeout
	if sf := parseFile(fset, "pkg/server/server.go"); sf != nil {
		expr := ""
		ast.Inspect(sf, func(n ast.Node) bool {
			if as, ok := n.(*ast.AssignStmt); ok && len(as.Lhs) == 1 && len(as.Rhs) == 1 && src(fset, as.Lhs[0]) == "shutdownTimeout" {
				expr = src(fset, as.Rhs[0])
			}
			return true
		})
		if expr == "" {
			probs.add("Facts", "shutdownTimeout assignment not found in pkg/server/server.go")
		}
		fmt.Fprintf(&b, "def shutdownTimeoutExpr : String := %s\n\n", strconv.Quote(expr))
	}
	b.WriteString("end Ww.Gen.Facts\n")
	writeGen("Facts.lean", b.String())
}
